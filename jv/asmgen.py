"""S-elf (c): AT&T templates assembled by the installed `as` and printed by the
installed objdump, so operand spellings are objdump's own."""
from __future__ import annotations

import os
import random
import subprocess
from typing import List, Optional, Tuple

from . import objd

R64 = ["%rax", "%rbx", "%rcx", "%rdx", "%rsi", "%rdi", "%rbp", "%rsp", "%r8", "%r9", "%r10", "%r11", "%r12", "%r13", "%r14", "%r15"]
R32 = ["%eax", "%ebx", "%ecx", "%edx", "%esi", "%edi", "%ebp", "%esp", "%r8d", "%r9d", "%r10d", "%r11d", "%r12d", "%r13d", "%r14d", "%r15d"]
R16 = ["%ax", "%bx", "%cx", "%dx", "%si", "%di", "%bp", "%sp", "%r8w", "%r9w", "%r10w", "%r11w", "%r12w", "%r13w", "%r14w", "%r15w"]
R8 = ["%al", "%bl", "%cl", "%dl", "%sil", "%dil", "%bpl", "%spl", "%r8b", "%r9b", "%r10b", "%r11b", "%r12b", "%r13b", "%r14b", "%r15b"]
WIDTHS = {"q": R64, "l": R32, "w": R16, "b": R8}
DISPS = ["0x8", "0x10", "0x18", "0x80", "0x100", "0x7fffffff", "-0x8", "-0x18", "-0x80", "-0x1000", "0x28", "0x1"]
IMMS = ["$0x1", "$0x10", "$0x100", "$0x7f", "$0x0", "$-0x8", "$0x12345678", "$0x8"]


def mem(rng: random.Random, bits=64, shape=None) -> str:
    base_pool = R64 if bits == 64 else R32[:8]
    idx_pool = [r for r in base_pool if r not in ("%rsp", "%esp")]
    shape = shape or rng.choice(["k(a,b,c)", "(a,b,c)", "k(,b,c)", "k(a)", "(a)", "k(a,b,c)", "k(a)"])
    a, b = rng.choice(base_pool), rng.choice(idx_pool)
    c, k = rng.choice(["1", "2", "4", "8"]), rng.choice(DISPS)
    if bits == 32 and k == "0x7fffffff":
        k = "0x7ffffff"
    return {"k(a,b,c)": f"{k}({a},{b},{c})", "(a,b,c)": f"({a},{b},{c})", "k(,b,c)": f"{k}(,{b},{c})",
            "k(a)": f"{k}({a})", "(a)": f"({a})"}[shape]


def template(rng: random.Random, bits=64, label_count=8) -> str:
    w = rng.choice(["q", "l", "w", "b"] if bits == 64 else ["l", "w"])
    regs = WIDTHS[w] if bits == 64 else WIDTHS[w][:8]
    r = rng.random()
    two = ["mov", "add", "sub", "xor", "cmp", "and", "or", "test", "adc", "sbb"]
    if r < 0.08:
        return rng.choice(["ret", "nop", "leave", "hlt", "int3", "cltd", "cwtl", "pushf", "popf"] if bits == 32 else
                          ["ret", "nop", "leave", "hlt", "int3", "cltq", "cqto", "pushf", "popf"])
    if r < 0.2:
        tgt = f"L{rng.randrange(label_count)}"
        return rng.choice(["call", "jmp", "je", "jne", "jg", "jle", "jb", "js"]) + " " + tgt
    if r < 0.25:
        full = R64 if bits == 64 else R32[:8]
        return rng.choice(["jmp", "call"]) + " *" + rng.choice([rng.choice(full), mem(rng, bits)])
    if r < 0.35:
        full = R64 if bits == 64 else R32[:8]
        op = rng.choice(["push", "pop"])
        if op == "push" and rng.random() < 0.4:
            return "push " + rng.choice(IMMS[:5])
        if rng.random() < 0.3:
            return f"{op}{'q' if bits == 64 else 'l'} " + mem(rng, bits)
        return f"{op} " + rng.choice(full)
    if r < 0.43:
        return _unary(rng, w, regs, bits)
    if r < 0.5:
        full = R64 if bits == 64 else R32[:8]
        return "lea " + mem(rng, bits) + "," + rng.choice(full)
    if r < 0.6:
        ww = rng.choice(["q", "l", "w"] if bits == 64 else ["l", "w"])
        rr = WIDTHS[ww] if bits == 64 else WIDTHS[ww][:8]
        op = rng.choice(["imul", "shld", "shrd"])
        imm = rng.choice(["$0x3", "$0x10", "$0x7"])
        if op == "imul":
            src = rng.choice(rr) if rng.random() < 0.6 else mem(rng, bits)
            return f"imul {imm},{src},{rng.choice(rr)}"
        dst = rng.choice(rr) if rng.random() < 0.7 else mem(rng, bits)
        return f"{op} {imm},{rng.choice(rr)},{dst}"
    if r < 0.64:
        # segment overrides and string instructions: operands that carry an extra component (%fs:k(a,b,c), %es:(%rdi))
        full = R64 if bits == 64 else R32[:8]
        seg = rng.choice(["%fs", "%gs"])
        return rng.choice([f"mov {seg}:{mem(rng, bits)},{rng.choice(full)}", f"mov {rng.choice(full)},{seg}:{mem(rng, bits)}",
                           "stos %al,%es:(%rdi)" if bits == 64 else "stos %al,%es:(%edi)",
                           "movsb %ds:(%rsi),%es:(%rdi)" if bits == 64 else "movsb %ds:(%esi),%es:(%edi)",
                           f"add {seg}:0x28,{rng.choice(full)}", f"call *{seg}:{mem(rng, bits)}", f"jmp *{seg}:{mem(rng, bits)}"])
    if r < 0.70:
        return prefixed(rng, bits)
    if r < 0.74 and bits == 64:
        return decorated(rng)
    if r < 0.78:
        return rare(rng, bits)
    op = rng.choice(two)
    form = rng.random()
    if form < 0.3:
        return f"{op} {rng.choice(regs)},{rng.choice(regs)}"
    if form < 0.45:
        imm = rng.choice(IMMS if w != "b" else IMMS[:5])
        if w == "w" and imm == "$0x12345678":
            imm = "$0x1234"
        return f"{op} {imm},{rng.choice(regs)}"
    if form < 0.65:
        return f"{op} {mem(rng, bits)},{rng.choice(regs)}"
    if form < 0.85:
        return f"{op} {rng.choice(regs)},{mem(rng, bits)}"
    imm = rng.choice(IMMS[:5])
    return f"{op}{w} {imm},{mem(rng, bits)}"


def prefixed(rng: random.Random, bits=64) -> str:
    """Instructions objdump prints with a prefix token in front of the mnemonic (lock/rep*/notrack/bnd/data16/rex/segment)."""
    full = R64 if bits == 64 else R32[:8]
    di, si = ("%rdi", "%rsi") if bits == 64 else ("%edi", "%esi")
    sfx = "q" if bits == 64 else "l"
    r = rng.random()
    if r < 0.3:
        m = mem(rng, bits)
        return rng.choice([f"lock inc{sfx} {m}", f"lock add {rng.choice(full)},{m}", f"lock cmpxchg {rng.choice(full)},{m}",
                           f"lock xadd {rng.choice(full)},{m}", f"lock or{sfx} $0x1,{m}", f"lock dec{sfx} {m}"])
    if r < 0.55:
        return rng.choice([f"rep stos %al,%es:({di})", f"rep movsb %ds:({si}),%es:({di})", f"repz cmpsb %es:({di}),%ds:({si})",
                           f"repnz scas %es:({di}),%al", "repz ret", f"rep movs{sfx} %ds:({si}),%es:({di})", f"rep stos %{'r' if bits == 64 else 'e'}ax,%es:({di})"])
    if r < 0.62 and bits == 64:
        # encoding pseudo prefixes objdump prints in the mnemonic column
        x = lambda: "%xmm" + str(rng.randrange(0, 8))  # noqa: E731
        return rng.choice([f"{{evex}} vaddps {x()},{x()},{x()}", f"{{vex}} vpdpbusd {x()},{x()},{x()}", f"{{evex}} vmovaps {x()},{x()}", f"{{evex}} vpaddd {x()},{x()},{x()}"])
    if r < 0.7:
        return rng.choice([f"notrack jmp *{rng.choice(full)}", f"notrack call *{rng.choice(full)}", "bnd ret", f"bnd jmp L{rng.randrange(8)}",
                           f"bnd call L{rng.randrange(8)}"])
    byte = rng.choice(["0x66", "0x66", "0x2e", "0x3e"] + (["0x48", "0x40"] if bits == 64 else []))
    body = rng.choice(["int3", "clc", "hlt", "lahf", "cpuid", "nop", "ret", "leave", "cld", f"inc {rng.choice(full)}", f"push {rng.choice(full)}",
                       f"mov {rng.choice(full)},{rng.choice(full)}", f"add $0x8,{rng.choice(full)}"])
    return f".byte {byte}\n\t{body}"


# long NOPs with stacked operand-size prefixes (objdump: `data16 data16 nopw 0x0(%rax,%rax,1)`, `data16 nopw 0x0(%rax,%rax,1)`)
STACKED_DATA16 = (".byte 0x66,0x66,0x66,0x0f,0x1f,0x84,0x00,0x00,0x00,0x00,0x00", ".byte 0x66,0x66,0x0f,0x1f,0x84,0x00,0x00,0x00,0x00,0x00")


def rare(rng: random.Random, bits=64) -> str:
    """Forms a compiler rarely emits but objdump prints: the pseudo index register %riz / %eiz (a SIB byte without index; gas refuses
    the name, so raw bytes are emitted), un-prefixed string instructions with two memory operands or a segment operand first,
    repeated data16 prefixes, long NOPs."""
    di, si = ("%rdi", "%rsi") if bits == 64 else ("%edi", "%esi")
    acc = "%rax" if bits == 64 else "%eax"
    raw64 = [".byte 0x48,0x8d,0x74,0x26,0x00", ".byte 0x48,0x8d,0xb4,0x26,0x00,0x00,0x00,0x00", ".byte 0x48,0x8b,0x04,0x24", ".byte 0x8d,0x74,0x26,0x00",
             ".byte 0x67,0x8d,0x74,0x26,0x00", ".byte 0x67,0x8d,0xb4,0x26,0x00,0x00,0x00,0x00", ".byte 0x66,0x66,0x90", ".byte 0x66,0x66,0x66,0x90",
             ".byte 0x66,0x66,0x2e,0x0f,0x1f,0x84,0x00,0x00,0x00,0x00,0x00", ".byte 0x48,0x8d,0x04,0x65,0x00,0x00,0x00,0x00",
             STACKED_DATA16[0], STACKED_DATA16[1], "{evex} vaddps %xmm1,%xmm2,%xmm3", "{vex} vpdpbusd %xmm1,%xmm2,%xmm3", "{evex} vmovaps %xmm4,%xmm5"]
    raw32 = [".byte 0x8d,0xb4,0x26,0x00,0x00,0x00,0x00", ".byte 0x8d,0x74,0x26,0x00", ".byte 0x8d,0xb6,0x00,0x00,0x00,0x00", ".byte 0x8d,0x04,0x65,0x00,0x00,0x00,0x00",
             ".byte 0x66,0x66,0x90", ".byte 0x8b,0x04,0x24"]
    strings = [f"lods %ds:({si}),%al", f"lods %ds:({si}),{acc}", f"scas %es:({di}),%al", f"scas %es:({di}),{acc}", f"outsb %ds:({si}),(%dx)", f"insb (%dx),%es:({di})",
               f"cmpsb %es:({di}),%ds:({si})", f"movsb %ds:({si}),%es:({di})", f"stos %al,%es:({di})", f"outsl %ds:({si}),(%dx)", "xlat %ds:(%rbx)" if bits == 64 else "xlat %ds:(%ebx)"]
    r = rng.random()
    if bits == 32 and r < 0.35:
        # 16-bit addressing in 32-bit code (0x67 prefix): the only AT&T memory reference with two registers and no scale
        b16, i16 = rng.choice(["%bx", "%bp"]), rng.choice(["%si", "%di"])
        d16 = rng.choice(["", "0x10", "-0x4", "0x7f", "0x100"])
        m16 = rng.choice([f"{d16}({b16},{i16})", f"{d16}({b16},{i16})", f"{d16}({rng.choice(['%bx', '%si', '%di', '%bp'] if d16 else ['%bx', '%si', '%di'])})"])
        return rng.choice([f"mov {m16},%eax", f"mov %eax,{m16}", f"lea {m16},%ecx", f"addl $0x1,{m16}", f"mov {m16},%ax", f"fldcw {m16}"])
    if r < 0.5:
        return rng.choice(raw64 if bits == 64 else raw32)
    return rng.choice(strings)


def decorated(rng: random.Random) -> str:
    """AVX-512 operands with decorations glued to them: {1to16} broadcasts, {%k1} masks, {z}, {rn-sae} (64-bit only)."""
    z = lambda: "%zmm" + str(rng.randrange(0, 8))  # noqa: E731
    k = lambda: "{%k" + str(rng.randrange(1, 8)) + "}"  # noqa: E731
    b = rng.choice(["%rax", "%rbx", "%rcx", "%rdx", "%rsi", "%rdi"])
    i = rng.choice(["%rbx", "%rcx", "%rdx", "%rsi"])
    c = rng.choice(["1", "2", "4", "8"])
    d = rng.choice(["", "0x40", "0x10", "-0x40"])
    m = rng.choice([f"{d}({b},{i},{c})", f"{d}({b})", f"{d}({b},{i},{c})"])
    vm = f"{d}({b},{z()},{c})"
    return rng.choice([
        f"vaddps {m}{{1to16}},{z()},{z()}", f"vmovaps {z()},{m}{k()}", f"vgatherdps {vm},{z()}{k()}", f"vscatterdps {z()},{vm}{k()}",
        f"vaddps {{rn-sae}},{z()},{z()},{z()}", f"vmovaps {z()},{z()}{k()}{{z}}", f"vaddps {m}{{1to16}},{z()},{z()}{k()}",
        f"vcmpps $0x1,{m}{{1to16}},{z()},%k2{k()}", f"vpaddd {m}{{1to16}},{z()},{z()}{k()}{{z}}", f"vmulpd {m}{{1to8}},{z()},{z()}",
        f"vgetmantpd $0x4,{{sae}},{z()},{z()}", f"vrndscaleps $0x3,{{sae}},{z()},{z()}", f"vfixupimmpd $0x5,{{sae}},{z()},{z()},{z()}", f"vreduceps $0x1,{{sae}},{z()},{z()}{k()}",
        f"vcmpps $0x2,{{sae}},{z()},{z()},%k1", f"vgetmantsd $0x4,{{sae}},%xmm1,%xmm2,%xmm3"])


def _unary(rng, w, regs, bits):
    op = rng.choice(["inc", "dec", "neg", "not"])
    if rng.random() < 0.6:
        return f"{op} {rng.choice(regs)}"
    return f"{op}{w} {mem(rng, bits)}"


def assemble(ws, lines: List[str], bits=64) -> Optional[Tuple[str, str]]:
    """Assemble and disassemble; returns (object path, objdump text) or None if `as` refuses."""
    if not objd.AS:
        return None
    nlab = 8
    src = [".text", ".globl _start", "_start:"]
    step = max(1, len(lines) // nlab)
    lab = 0
    for i, ln in enumerate(lines):
        if i % step == 0 and lab < nlab:
            src.append(f"L{lab}:")
            lab += 1
        src.append("\t" + ln)
    while lab < nlab:
        src.append(f"L{lab}:")
        lab += 1
    src.append("\tret")
    sp = ws.write("t.s", "\n".join(src) + "\n")
    op = ws.path("t.o")
    p = subprocess.run([objd.AS, "--64" if bits == 64 else "--32", "-o", op, sp], capture_output=True, text=True, timeout=120)
    if p.returncode != 0:
        return None
    rc, out, err = objd.disassemble(op)
    if rc != 0:
        return None
    return op, out
