"""Workload driver shared by the compile-side checks C01-C05: listings with
planted structure, rules derived from them, one-step near misses."""
from __future__ import annotations

import copy
import random
from typing import Callable, List, Optional

import yaml

from . import dsl, listing as L, model as M, real, rulegen as RG


def make_listing(rng: random.Random, style: str) -> List[L.SInst]:
    n = rng.choice([3, 5, 8, 12, 20, 30, 40])
    if style == "runs":
        pool = rng.sample(L.ALL_MNEMONICS, rng.randint(2, 4))
        regs = rng.sample(L.ALL_REGS, 4)
        insts = L.gen_listing(rng, n, mnems=pool, regs=regs)
        # plant exact runs of identical instructions
        for _ in range(rng.randint(1, 3)):
            i = rng.randrange(len(insts))
            k = rng.randint(1, 5)
            src = insts[i]
            for _ in range(k):
                insts.insert(i, L.SInst(0, src.mnem, list(src.ops), src.annotation, None, src.nbytes))
        # plant repeated blocks (a b a b a b)
        for _ in range(rng.randint(0, 2)):
            i = rng.randrange(len(insts))
            w = rng.randint(2, 3)
            block = insts[i:i + w]
            permute = rng.random() < 0.5
            for _ in range(rng.randint(1, 3)):
                rep = list(block)
                if permute:
                    rng.shuffle(rep)      # repetitions of an any-order group may come in different orders
                for s_ in reversed(rep):
                    insts.insert(i, L.SInst(0, s_.mnem, list(s_.ops), s_.annotation, None, s_.nbytes))
        insts = insts[:60]
    elif style == "dups":
        fam = rng.choice(L.REG_FAMILIES) + rng.choice(L.REG_FAMILIES)
        insts = L.gen_listing(rng, n, regs=fam)
        for _ in range(rng.randint(1, 4)):
            i, j = sorted((rng.randrange(len(insts)), rng.randrange(len(insts))))
            a, b = insts[i], insts[j]
            r = rng.random()
            if r < 0.4:
                insts[j] = L.SInst(0, a.mnem, list(a.ops), a.annotation, None, b.nbytes)
            elif a.ops and b.ops and not b.annotation:
                src = rng.choice(a.ops)
                if not a.annotation:
                    k = rng.randrange(len(b.ops))
                    if r < 0.7:
                        b.ops[k] = src
                    else:  # near miss: extension / other width of the copied operand
                        b.ops[k] = _near(rng, src)
    elif style == "tiny":
        # very small vocabularies: equal / prefix-related operands and whole instructions recur often
        pool = rng.sample(L.ALL_MNEMONICS, rng.randint(2, 3))
        ops = rng.choice([["%r8", "%r8d", "$0x1", "$0x10"], ["%rax", "%eax", "%ax", "$0x8"], ["%rsi", "%si", "%sil", "%rdi"],
                          ["%rsp", "%esp", "%rbp", "%bp"], ["$0x1", "$0x10", "$0x100", "%rcx"],
                          ["-0x8(%rbp)", "-0x18(%rbp)", "%rbx", "%ebx"], ["0x10(%rax,%rbx,4)", "0x10(%rax,%rbx,4)", "(%rdi)", "%rcx"],
                          ["(%rsi)", "(%rsi)", "0x8(%rsi)", "$0x8"]])
        insts = []
        for _ in range(n):
            k = rng.choice([0, 1, 1, 2, 2, 2, 3])
            insts.append(L.SInst(0, rng.choice(pool), [rng.choice(ops) for _ in range(k)], None, None, rng.randint(1, 8)))
        insts[0].addr = rng.choice([0x10, 0x401000, 0x1139])
    elif style == "multisec":
        # relocatable-object look: several sections, each restarting at address 0, with similar contents
        pool = rng.sample(L.ALL_MNEMONICS, rng.randint(2, 4))
        regs = rng.sample(L.ALL_REGS, 3)
        first = L.gen_listing(rng, rng.choice([3, 5, 8]), mnems=pool, regs=regs, start=0)
        insts = list(first)
        for _ in range(rng.randint(1, 2)):
            sec = []
            for s_ in first:
                if rng.random() < 0.6:
                    sec.append(L.SInst(s_.addr, s_.mnem, list(s_.ops), s_.annotation, None, s_.nbytes))     # identical record
                else:
                    m, ops = L.rand_inst_body(rng, pool, regs)
                    if ops == ["@target"]:
                        ops = ["10"]
                    sec.append(L.SInst(s_.addr, m, ops, None, None, s_.nbytes))                          # same address, other text
            insts += sec
        return insts
    elif style == "regs":
        fam = [r for f in L.REG_FAMILIES[:8] for r in f]
        insts = L.gen_listing(rng, n, mnems=rng.sample(L.ALL_MNEMONICS, 6), regs=fam)
        for s in insts:
            if s.ops and not s.annotation and rng.random() < 0.7:
                s.ops = [rng.choice(fam) if rng.random() < 0.8 else o for o in s.ops]
    elif style == "kernel":
        # addresses of 16 significant hex digits (what objdump prints for a kernel image linked at 0xffffffff81000000)
        insts = L.gen_listing(rng, n, start=rng.choice([0xffffffff81000000, 0xffffffffa0001ff0, 0xffff800000100000, 0x7fffffffe000]))
    else:
        insts = L.gen_listing(rng, n)
    RG._readdress(insts) if any(s.addr == 0 for s in insts[1:]) else None
    return insts


def share_equal_subtrees(node, seen=None):
    """The same pattern with every later dict/list sub-tree that equals an earlier one replaced by that earlier OBJECT, so
    that the YAML dump writes it once with an anchor and refers to it by alias."""
    import json
    seen = {} if seen is None else seen
    if isinstance(node, (dict, list)):
        key = json.dumps(node, sort_keys=False, default=str)
        if key in seen:
            return seen[key]
        out = {k: share_equal_subtrees(v, seen) for k, v in node.items()} if isinstance(node, dict) else [share_equal_subtrees(v, seen) for v in node]
        seen[key] = out
        return out
    return node


def _near(rng, op: str) -> str:
    if op.startswith("$0x"):
        return op + rng.choice("08")
    if op.startswith("%"):
        for fam in L.REG_FAMILIES:
            if op in fam:
                return rng.choice(fam)
    return op


class Driver:
    def __init__(self, ctx, feat_factory: Callable[[random.Random], RG.Feat], *, flags="all4",
                 styles=("mixed",), quirks=(), per_listing=8, mutate=0.5, extra=None, classify=None,
                 accept=None, interesting=None, judge_model=True, allow_empty=False):
        self.ctx = ctx
        self.feat_factory = feat_factory
        self.flags = flags
        self.styles = list(styles)
        self.quirks = list(quirks)
        self.per_listing = per_listing
        self.mutate = mutate
        self.extra = extra
        self.classify = classify      # (doc, prep, outcome) -> finding key or None (beyond quirk attribution)
        self.accept = accept          # (pattern) -> bool: generator-side filter
        self.interesting = interesting  # (pattern) -> bool: additional condition for a case to count as non-trivial
        self.judge_model = judge_model
        self.on_parser_disagreement = None
        self.allow_empty = allow_empty
        self.crlf_twin = 0.08
        self.reuse_twin = 0.08
        self.alias_twin = 0.25        # equal sub-trees of a rule written once and referred to by a YAML alias (same object twice)
        self.compile_twice = 0.08
        self.inert_config = 0.15
        self.decoy_twin = 0.08        # another rule (other full-match flags) loaded between building this matcher and running it
        self.allow_any_order_defs = False     # C05: capture definitions inside $and_any_order are judged too (open finding F21)
        self.other_listing = None     # path of a copy of the previous listing of this shard
        self.other_range_safe = False
        self.count_model_nontrivial = False
        self.macros = None
        self.ws = real.Workspace()
        self.max_cost = 400
        self.max_risk = 400           # see rulegen.backtrack_risk
        self.prep: Optional[dsl.Prepared] = None

    FLAGSETS = [(False, False), (True, False), (False, True), (True, True)]
    LOG_LEVELS = ["warning"] * 7 + ["info"] + ["debug"] * 2      # ambient state: what --info / --debug set on jasm's logger

    def new_listing(self, style=None):
        ctx = self.ctx
        fixed = style
        for _ in range(20):
            style = fixed or ctx.rng.choice(self.styles)
            insts = make_listing(ctx.rng, style)
            prep = dsl.Prepared(self.ws, insts, ctx.rng)
            ctx.ran()
            if prep.verify(self.ws):
                if self.prep is not None:
                    self.other_listing = self.ws.write("other.s", self.prep.text)
                    self.other_range_safe = self._range_safe(self.prep)
                self.prep = prep
                self.style = style
                return prep
            ctx.inconc("parser disagreement on synthetic listing")
            ctx.notes.append(prep.why) if len(ctx.notes) < 3 else None
            if self.on_parser_disagreement:
                self.on_parser_disagreement(self, prep)
        raise RuntimeError("no synthetic listing passes the parser agreement gate: " + prep.why)

    JUMPS = {"call", "callq", "jmp", "jne", "je", "jg", "jge", "jl", "jle", "jz", "jnz"}

    @staticmethod
    def _range_safe(prep) -> bool:
        """valid_addr_range reads operand 0 of branch mnemonics as a hexadecimal address: only listings whose branch mnemonics carry
        one (or an indirect '*' operand) can be run with the option."""
        import re
        for _, m, ops in prep.expect:
            if m in Driver.JUMPS and ops and ops[0] and "*" not in ops[0] and not re.fullmatch(r"[0-9a-f]+", ops[0]):
                return False
            if m in Driver.JUMPS and ops and re.fullmatch(r"[0-9a-f]+", ops[0] or "") and int(ops[0], 16) >= 0xfffffffffff0:
                return False
        return True

    def run_pattern(self, pattern, desc, base_found: bool, prep=None):
        """Evaluate one pattern on the current listing under the configured flag sets.
        Returns True if the model found it under any flag set."""
        ctx = self.ctx
        prep = prep or self.prep
        flagsets = self.FLAGSETS if self.flags == "all4" else [ctx.rng.choice(self.FLAGSETS)] if self.flags == "random" else [(False, False)]
        any_found = False
        try:
            root = M.parse_rule({"pattern": pattern})
            if M.min_len(root) == 0:
                if not self.allow_empty:
                    ctx.event("skipped_can_match_empty")
                    return False
                ctx.event("patterns_that_can_match_empty")
            if not M.defs_on_spine(root, self.allow_any_order_defs):
                ctx.event("skipped_capture_definition_off_spine")
                return False
        except M.Unsupported as e:
            if self.judge_model:
                ctx.inconc(f"model unsupported: {str(e)[:40]}")
                return False
            ctx.event("model_unsupported_form_still_monitored")
        for mn, op in flagsets:
            doc = {}
            if mn or op or ctx.rng.random() < 0.2:
                doc["config"] = {"mnemonics-full-match": mn, "operands-full-match": op}
                if (mn or op) and ctx.rng.random() < 0.4:
                    # an omitted flag is off: name only the flags that are on (the previous rule of this process had other settings)
                    doc["config"] = {k: v for k, v in doc["config"].items() if v}
                    ctx.event("rules_naming_only_the_flags_that_are_on")
            if ctx.rng.random() < self.inert_config:
                # configuration that cannot change the outcome on this input: a valid_addr_range no branch of the listing lands in (the
                # observer is installed but never tags), section names / style (options of the binary route only)
                extra_cfg = {}
                if self._range_safe(prep) and ctx.rng.random() < 0.6:
                    extra_cfg["valid_addr_range"] = {"min": "0xfffffffffff0", "max": "fffffffffff8"}
                if ctx.rng.random() < 0.4:
                    extra_cfg["sections"] = ctx.rng.choice([[".text"], [".init", ".text"], ["nosuch"]])
                if ctx.rng.random() < 0.3:
                    extra_cfg["style"] = "att"
                if extra_cfg:
                    doc["config"] = {**(doc.get("config") or {}), **extra_cfg}
                    ctx.event("rules_with_inert_config_keys")
            doc["pattern"] = share_equal_subtrees(pattern) if ctx.rng.random() < self.alias_twin else pattern
            text = real.dump_rule(doc)
            if "*id0" in text:
                ctx.event("rules_written_with_yaml_aliases")
            if "@" in text and not self.macros:
                ctx.event("skipped_macro_reference_without_macro_file")     # '@any' is only a wildcard when the macro file is given
                return False
            level = ctx.rng.choice(self.LOG_LEVELS)
            real.set_log_level(level)
            ctx.event("cases_run_with_log_level_" + level)
            try:
                import time as _t
                _t0 = _t.time()
                o = dsl.evaluate(self.ws, prep, text, macros=self.macros, require_model=self.judge_model)
                if _t.time() - _t0 > 15:
                    ctx.event("slow_case_over_15s")
                    if ctx.events["slow_case_over_15s"] >= 3:
                        ctx.deadline = 0          # stop this shard early: what was observed so far is still reported
            except M.Unsupported as e:
                ctx.inconc(f"model unsupported: {str(e)[:40]}")
                return False
            finally:
                real.set_log_level("warning")
            ctx.ran()
            if o.status == "timeout":
                ctx.inconc("regex engine timeout (JASM's 60 s budget)")
                if len(ctx.notes) < 5:
                    ctx.notes.append("timeout on rule: " + text[:400].replace("\n", " / ") + f" | listing of {len(prep.expect)} instructions")
                return False
            any_found = any_found or o.found_model
            nontrivial = (o.found_model or base_found) and (self.interesting is None or self.interesting(pattern))
            ctx.case((text, prep.expect), nontrivial and (self.judge_model or self.count_model_nontrivial), stratum=f"{self.style}/{desc.split(':')[0]}",
                     outcome=("exc" if o.status == "exc" else "found" if o.found_real else "not found"))
            ctx.event("hits_located", len(o.real_windows))
            if o.found_model:
                ctx.sample("positive", {"rule": text, "listing_head": prep.text[:600], "hits": o.hits[:2], "model_windows": sorted(o.model_windows)[:5]})
            elif base_found:
                ctx.sample("near-miss", {"rule": text, "mutation": desc, "listing_head": prep.text[:600], "real": o.found_real})
            if o.verdict != "held" and not self.judge_model:
                ctx.event("model_disagreement_left_to_C01_C05")
            elif o.verdict != "held":
                key = None
                if self.quirks:
                    key = dsl.attribute(yaml.safe_load(text), prep, o, self.quirks)
                if key is None and self.classify:
                    key = self.classify(yaml.safe_load(text), prep, o)
                ctx.disagreement(dsl.case_doc(text, prep, desc), o.why + (f" | regex={o.regex}" if o.regex and len(o.regex) < 600 else ""), key)
            if o.status == "ok" and o.found_real and "\r" not in prep.text and ctx.rng.random() < self.crlf_twin:
                # presentation twin: the same listing with CRLF line ends holds the same instructions
                p2 = self.ws.write("crlf.s", prep.text.replace("\n", "\r\n").encode())
                r2 = real.match(self.ws.path("rule.yaml"), p2, ret="list", search="all", only_addr=False, macros=self.macros)
                ctx.ran()
                ctx.event("crlf_twins_compared")
                if r2[0] != "ok" or list(r2[1]) != o.hits:
                    c = dsl.case_doc(text, prep, desc + " / CRLF twin")
                    c["crlf"] = True
                    ctx.disagreement(c, f"same rule, same instructions, CRLF line ends: {str(r2[1])[:160]} instead of {str(o.hits)[:160]}")
            if o.status == "ok" and ctx.rng.random() < self.compile_twice:
                try:
                    y = real.y2r.Yaml2Regex(self.ws.path("rule.yaml"), macros_from_terminal=self.macros)
                    r1, r2 = y.produce_regex(), y.produce_regex()
                    why = None if (r1 == r2 == o.regex) else f"produce_regex() differs between calls on one Yaml2Regex object: {r1[:200]!r} vs {r2[:200]!r}"
                except Exception as e:  # noqa: BLE001
                    why = f"second produce_regex() on one Yaml2Regex object raised {type(e).__name__}: {e}"
                ctx.ran(2)
                ctx.event("same_rule_object_compiled_twice")
                if why:
                    c = dsl.case_doc(text, prep, desc + " / compiled twice")
                    c["compile_twice"] = True
                    ctx.disagreement(c, why)
            if o.status == "ok" and self.other_listing and ctx.rng.random() < self.reuse_twin and (
                    self.other_range_safe or "valid_addr_range" not in (doc.get("config") or {})):
                # one matcher object used on another listing first, then on this one: what it reports for this listing
                # is what a fresh object reports (nothing of the earlier input is carried over)
                search = ctx.rng.choice(["all", "first"])
                only_addr = ctx.rng.random() < 0.5
                rs = real.match_sequence(self.ws.path("rule.yaml"), [self.other_listing, prep.path], ret="list", search=search,
                                         only_addr=only_addr, macros=self.macros)
                ctx.ran(2)
                ctx.event("matcher_reused_on_second_listing")
                want = o.hits if search == "all" else o.hits[:1]
                if only_addr:
                    want = [h.split("::")[0] for h in want]
                if rs[0] != "ok" or rs[1][1] != want:
                    c = dsl.case_doc(text, prep, desc + " / reused matcher")
                    c["reuse"] = {"other": open(self.other_listing).read(), "search": search, "only_addr": only_addr}
                    ctx.disagreement(c, f"one MasterOfPuppets object used on listing A then on this listing ({search}-match, only_addr={only_addr}) reports "
                                        f"{str(rs[1][1] if rs[0] == 'ok' else rs[1:])[:200]}; a fresh object reports {str(want)[:200]}")
            if o.status == "ok" and ctx.rng.random() < self.decoy_twin:
                self.decoy_case(doc, text, prep, o, desc)
            if self.extra:
                self.extra(self, doc, text, prep, o)
        return any_found

    def decoy_case(self, doc, text, prep, o, desc):
        """A rule set prepared up front: the matcher of this rule is built, then the matcher of ANOTHER rule with the opposite
        full-match flags (and, half of the time, another address range and section list) is built, then this one is run. Each rule
        is judged under its own configuration."""
        ctx = self.ctx
        cfg = dict(doc.get("config") or {})
        other = dict(cfg)
        other["mnemonics-full-match"] = not cfg.get("mnemonics-full-match", False)
        other["operands-full-match"] = not cfg.get("operands-full-match", False)
        if ctx.rng.random() < 0.5:
            # ... and the options consulted while matching differ too: the decoy carries a range when this rule has none (and the other way round)
            if "valid_addr_range" in other:
                del other["valid_addr_range"]
            else:
                other["valid_addr_range"] = {"min": "0", "max": "ffffffffffffffff"}
            other["sections"] = [".decoy"]
            ctx.event("decoy_rules_with_other_range_and_sections")
        dp = self.ws.write("decoy.yaml", real.dump_rule({"config": other, "pattern": [{"nop": []}, "ret"]}))
        # the compile API the same way: the rule object is made, the decoy rule object is made, then the first one produces its regex
        try:
            y1 = real.y2r.Yaml2Regex(self.ws.path("rule.yaml"), macros_from_terminal=self.macros)
            real.y2r.Yaml2Regex(dp, macros_from_terminal=self.macros)
            rx = y1.produce_regex()
            why_rx = None if rx == o.regex else f"the rule object made before a rule with config {other} was loaded produces {rx[:200]!r}; made and compiled at once {str(o.regex)[:200]!r}"
        except Exception as e:  # noqa: BLE001
            why_rx = f"produce_regex() after another rule was loaded raised {type(e).__name__}: {e}"
        ctx.ran()
        ctx.event("regex_produced_after_a_rule_with_other_flags_was_loaded")
        if why_rx:
            c = dsl.case_doc(text, prep, desc + " / decoy rule loaded before produce_regex")
            c["decoy"] = {"config": other, "search": "all", "compile": True}
            ctx.disagreement(c, why_rx)
            return
        search = ctx.rng.choice(["all", "first"])
        b1 = real.build(self.ws.path("rule.yaml"), prep.path, ret="list", search=search, macros=self.macros)
        b2 = real.build(dp, prep.path, ret="bool", macros=self.macros)
        r1 = real.run(b1)
        ctx.ran(2)
        ctx.event("matcher_run_after_a_rule_with_other_flags_was_loaded")
        want = o.hits if search == "all" else o.hits[:1]
        if b2[0] != "ok" or r1[0] != "ok" or list(r1[1]) != want:
            c = dsl.case_doc(text, prep, desc + " / decoy rule loaded before the run")
            c["decoy"] = {"config": other, "search": search}
            ctx.disagreement(c, f"matcher built, then a second rule with config {other} loaded, then the first matcher run ({search}-match): "
                                f"{str(r1[1:2])[:200]}; run on its own it reports {str(want)[:200]}")

    def loop(self, quick: int, thorough: int):
        ctx = self.ctx
        budget = ctx.share(quick, thorough)
        done = 0
        while done < budget and not ctx.out_of_time():
            self.new_listing()
            for _ in range(self.per_listing):
                if done >= budget:
                    break
                feat = self.feat_factory(ctx.rng)
                gen = RG.RuleGen(ctx.rng, self.prep.sinsts, feat)
                pattern = gen.rule()
                for _ in range(40):
                    if pattern and RG.pattern_cost(pattern) <= self.max_cost and RG.backtrack_risk(pattern) <= self.max_risk and (
                            self.accept is None or self.accept(pattern)):
                        break
                    gen = RG.RuleGen(ctx.rng, self.prep.sinsts, self.feat_factory(ctx.rng))
                    pattern = gen.rule()
                else:
                    pattern = None
                if not pattern:
                    ctx.event("generator_gave_up")
                    continue
                found = self.run_pattern(pattern, "base", False)
                done += 1
                # near misses: mutate the rule or the listing by one step
                for _ in range(2):
                    if ctx.rng.random() > self.mutate or done >= budget:
                        continue
                    if ctx.rng.random() < 0.6:
                        m = RG.mutate_rule(ctx.rng, pattern)
                        if m:
                            self.run_pattern(m[0], "rule-mut:" + m[1], found)
                            done += 1
                    else:
                        lo = 0
                        sin, d = RG.mutate_listing(ctx.rng, self.prep.sinsts, lo, len(self.prep.sinsts) - 1)
                        p2 = dsl.Prepared(self.ws, sin, ctx.rng, name="l2.s")
                        ctx.ran()
                        if p2.verify(self.ws):
                            self.run_pattern(pattern, "listing-mut:" + d, found, prep=p2)
                            done += 1
                        else:
                            ctx.inconc("parser disagreement on synthetic listing")


def replay_dsl(ctx, case: dict, quirks=(), classify=None, allow_any_order_defs=False):
    ws = real.Workspace()
    prep = dsl.prep_from_case(ws, case)
    if not prep.verify(ws):
        ctx.inconc("parser disagreement: " + prep.why)
        return
    try:
        if not M.defs_on_spine(M.parse_rule(yaml.safe_load(case["rule"])), allow_any_order_defs):
            ctx.inconc("the rule defines a capture off the executed-once spine: outside the class this check judges")
            return
    except M.Unsupported:
        pass
    o = dsl.evaluate(ws, prep, case["rule"])
    ctx.ran()
    if case.get("compile_twice") and o.status == "ok":
        y = real.y2r.Yaml2Regex(ws.path("rule.yaml"))
        r1, r2 = y.produce_regex(), y.produce_regex()
        if not (r1 == r2 == o.regex):
            ctx.disagreement(case, f"produce_regex() differs between calls on one Yaml2Regex object: {r1[:200]!r} vs {r2[:200]!r}")
    if case.get("reuse") and o.status == "ok":
        ru = case["reuse"]
        rs = real.match_sequence(ws.path("rule.yaml"), [ws.write("other.s", ru["other"]), prep.path], ret="list", search=ru["search"], only_addr=ru["only_addr"])
        want = o.hits if ru["search"] == "all" else o.hits[:1]
        if ru["only_addr"]:
            want = [h.split("::")[0] for h in want]
        if rs[0] != "ok" or rs[1][1] != want:
            ctx.disagreement(case, f"reused matcher reports {str(rs[1:])[:200]}; a fresh object reports {str(want)[:200]}")
    if case.get("decoy") and o.status == "ok":
        dc = case["decoy"]
        dp = ws.write("decoy.yaml", real.dump_rule({"config": dc["config"], "pattern": [{"nop": []}, "ret"]}))
        if dc.get("compile"):
            y1 = real.y2r.Yaml2Regex(ws.path("rule.yaml"))
            real.y2r.Yaml2Regex(dp)
            rx = y1.produce_regex()
            if rx != o.regex:
                ctx.disagreement(case, f"rule object made, a rule with config {dc['config']} loaded, then produce_regex(): {rx[:200]!r}; at once {str(o.regex)[:200]!r}")
        b1 = real.build(ws.path("rule.yaml"), prep.path, ret="list", search=dc["search"])
        b2 = real.build(dp, prep.path, ret="bool")
        r1 = real.run(b1)
        want = o.hits if dc["search"] == "all" else o.hits[:1]
        if b2[0] != "ok" or r1[0] != "ok" or list(r1[1]) != want:
            ctx.disagreement(case, f"matcher built, a second rule with config {dc['config']} loaded, then run: {str(r1[1:2])[:200]}; on its own {str(want)[:200]}")
    if case.get("crlf") and o.status == "ok":
        p2 = ws.write("crlf.s", prep.text.replace("\n", "\r\n").encode())
        r2 = real.match(ws.path("rule.yaml"), p2, ret="list", search="all", only_addr=False)
        if r2[0] != "ok" or list(r2[1]) != o.hits:
            ctx.disagreement(case, f"same rule, same instructions, CRLF line ends: {str(r2[1])[:160]} instead of {str(o.hits)[:160]}")
    if o.verdict != "held":
        key = dsl.attribute(yaml.safe_load(case["rule"]), prep, o, list(quirks)) if quirks else None
        if key is None and classify:
            key = classify(yaml.safe_load(case["rule"]), prep, o)
        ctx.disagreement(case, o.why + f" | regex={o.regex}", key)
