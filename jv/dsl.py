"""Differential engine shared by C01-C05 (and riders C07/C12): run the real
pipeline on (rule, listing) and compare with R-dsl on quantities that do not
depend on which of several matches the regex engine prefers."""
from __future__ import annotations

import random
from typing import Any, List, Optional

import yaml

from . import listing as L
from . import model as M
from . import real, stream


class Prepared:
    """A synthetic listing written to disk whose real stream was checked once."""

    def __init__(self, ws: real.Workspace, sinsts: List[L.SInst], rng: random.Random, name="l.s"):
        self.sinsts = sinsts
        self.text = L.render(sinsts, rng)
        self.path = ws.write(name, self.text)
        self.expect = [si.fields() for si in sinsts]
        self.stream: Optional[str] = None
        self.spans = None
        self.ok = False
        self.why = ""

    def verify(self, ws: real.Workspace) -> bool:
        rp = ws.write("_stream_rule.yaml", "pattern:\n  - zzzzzz\n")
        r = real.match(rp, self.path, ret="stream")
        if r[0] != "ok":
            self.why = f"parser raised {r[1]}: {r[2]}"
            return False
        self.stream = r[1]
        try:
            dec = stream.decode(self.stream)
        except stream.StreamError as e:
            self.why = f"stream undecodable: {e}"
            return False
        if dec != self.expect:
            for n, (a, b) in enumerate(zip(dec, self.expect)):
                if a != b:
                    self.why = f"record {n}: real {a} expected {b}"
                    break
            else:
                self.why = f"length real {len(dec)} expected {len(self.expect)}"
            return False
        self.spans = stream.record_spans(self.stream)
        self.ok = True
        return True


class Outcome:
    __slots__ = ("status", "exc", "hits", "real_windows", "aligned", "model_windows", "verdict", "why",
                 "found_real", "found_model", "regex", "model_unsupported")

    def __init__(self):
        self.status = "ok"
        self.exc = None
        self.hits: List[str] = []
        self.real_windows: List[Any] = []
        self.aligned = True
        self.model_windows = set()
        self.verdict = "held"
        self.why = ""
        self.found_real = False
        self.found_model = False
        self.regex = None
        self.model_unsupported = None


def flags_of(doc: dict):
    cfg = doc.get("config") or {}
    return bool(cfg.get("mnemonics-full-match", False)), bool(cfg.get("operands-full-match", False))


SCAN = None


def _scan_recorder():
    """H3 (once per process): match spans as yielded by regex.search/finditer inside jasm.consumer."""
    global SCAN
    if SCAN is None:
        from . import hooks
        SCAN = hooks.Recorder()
        hooks.install_scan_hook(SCAN)
    return SCAN


def locate(prep: Prepared, hits: List[str], spans=None):
    """Map full-text hits (in scan order) to record windows; None for a hit that is not record-aligned.
    With match spans observed at the hook the mapping is exact; the text search is the fallback (it is ambiguous only
    when identical records repeat in the listing)."""
    s = prep.stream
    starts = {a: i for i, (a, _) in enumerate(prep.spans)}
    ends = {b: i + 1 for i, (_, b) in enumerate(prep.spans)}
    if spans is not None and len(spans) == len(hits) and all(s[a:b] == h for (a, b), h in zip(spans, hits)):
        return [(starts[a], ends[b]) if a in starts and b in ends else None for a, b in spans]
    out = []
    pos = 0
    for h in hits:
        p = s.find(h, pos) if h else -1
        if p < 0:
            out.append(None)
            continue
        e = p + len(h)
        out.append((starts[p], ends[e]) if p in starts and e in ends else None)
        pos = max(e, pos)
    return out


def model_windows(doc: dict, insts, quirks=frozenset()):
    root = M.parse_rule(doc)
    mn, op = flags_of(doc)
    return M.Matcher(insts, mn, op, quirks).windows(root)


def evaluate(ws: real.Workspace, prep: Prepared, rule_text: str, macros=None, quirks=frozenset(), require_model=True) -> Outcome:
    """Run real (all matches, full text) and the model; fill in an Outcome."""
    o = Outcome()
    doc = yaml.safe_load(rule_text)
    try:
        o.model_windows = model_windows(doc, prep.expect, quirks)
    except M.Unsupported as e:
        if require_model:
            raise
        o.model_unsupported = str(e)
    o.found_model = bool(o.model_windows)
    rp = ws.write("rule.yaml", rule_text)
    rec = _scan_recorder()
    rec.clear()
    r = real.match(rp, prep.path, ret="list", search="all", only_addr=False, macros=macros)
    spans = [(e[1], e[2]) for e in rec.events if e[0] == "span"] if not rec.missing else None
    if r[0] != "ok":
        o.status, o.exc = "exc", (r[1], r[2])
        if r[1] in ("TimeoutError", "MemoryError") or "timeout" in r[2].lower() or "timed out" in r[2].lower():
            # JASM's own 60 s regex budget was exhausted (nested quantifiers): no verdict either way
            o.status, o.verdict, o.why = "timeout", "inconclusive", "regex engine timeout / memory limit"
            return o
        o.verdict, o.why = "disagree", f"real raised {r[1]}: {r[2]} on a rule the model accepts"
        return o
    o.hits, o.regex = list(r[1]), r[2]
    o.found_real = bool(o.hits)
    o.real_windows = locate(prep, o.hits, spans)
    if o.model_unsupported is None:
        compare(o)
    return o


def compare(o: Outcome):
    mw = o.model_windows
    if o.found_real != o.found_model:
        o.verdict = "disagree"
        o.why = f"found: real={o.found_real} model={o.found_model} (model windows {sorted(mw)[:4]})"
        return
    for n, w in enumerate(o.real_windows):
        if w is None:
            o.aligned = False
            o.verdict = "disagree"
            o.why = f"hit {n} is not a whole number of records: {o.hits[n][:120]!r}"
            return
        if w not in mw:
            o.verdict = "disagree"
            o.why = f"hit {n} covers records {w} which is not a model match (model windows {sorted(mw)[:6]})"
            return
    if o.real_windows:
        lm = min(i for i, _ in mw)
        if o.real_windows[0][0] != lm:
            o.verdict = "disagree"
            o.why = f"first hit starts at record {o.real_windows[0][0]}, model's leftmost start is {lm}"
            return
    o.verdict = "held"


def attribute(doc, prep: Prepared, o: Outcome, quirk_keys: List[str]) -> Optional[str]:
    """Find the single open-finding quirk under which the model reproduces the real outcome."""
    for q in quirk_keys:
        try:
            mw = model_windows(doc, prep.expect, frozenset([q]))
        except M.Unsupported:
            continue
        t = Outcome()
        t.model_windows, t.found_model = mw, bool(mw)
        t.hits, t.real_windows, t.found_real = o.hits, o.real_windows, o.found_real
        if o.status == "exc":
            continue
        compare(t)
        if t.verdict == "held":
            return q
    return None


def case_doc(rule_text: str, prep: Prepared, desc: str = "") -> dict:
    return {"rule": rule_text, "listing": prep.text, "sinsts": [[s.addr, s.mnem, s.ops, s.annotation, s.comment, s.nbytes] for s in prep.sinsts], "desc": desc}


def prep_from_case(ws: real.Workspace, case: dict) -> Prepared:
    sinsts = [L.SInst(a, m, o, an, c, nb) for a, m, o, an, c, nb in case["sinsts"]]
    p = Prepared(ws, sinsts, random.Random(0))
    p.text = case["listing"]
    p.path = ws.write("l.s", p.text)
    return p
