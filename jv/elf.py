"""A small ELF writer: ELF64/x86-64 and ELF32/i386 objects with arbitrary sections
(executable or data, any names) and an optional symbol table, for the real objdump."""
from __future__ import annotations

import struct
from typing import List, Optional, Tuple

SHT_NULL, SHT_PROGBITS, SHT_SYMTAB, SHT_STRTAB = 0, 1, 2, 3
SHF_WRITE, SHF_ALLOC, SHF_EXEC = 1, 2, 4


class Section:
    def __init__(self, name: str, data: bytes, addr: int, exec_: bool = True):
        self.name = name
        self.data = data
        self.addr = addr
        self.exec_ = exec_


def build(sections: List[Section], bits: int = 64, symbols: Optional[List[Tuple[str, int, int]]] = None) -> bytes:
    """symbols: list of (name, section index into `sections`, offset)."""
    is64 = bits == 64
    names = [""] + [s.name for s in sections] + [".shstrtab"]
    if symbols:
        names += [".symtab", ".strtab"]
    shstr = b"\0"
    name_off = {}
    for n in names[1:]:
        if n not in name_off:
            name_off[n] = len(shstr)
            shstr += n.encode() + b"\0"
    ehsize = 64 if is64 else 52
    shentsize = 64 if is64 else 40
    blobs = []
    off = ehsize
    layout = []
    for s in sections:
        off = (off + 15) & ~15
        layout.append(off)
        blobs.append((off, s.data))
        off += len(s.data)
    shstr_off = off
    blobs.append((off, shstr))
    off += len(shstr)
    symtab_off = strtab_off = 0
    symtab = strtab = b""
    if symbols:
        strtab = b"\0"
        ents = [struct.pack("<IBBHQQ", 0, 0, 0, 0, 0, 0) if is64 else struct.pack("<IIIBBH", 0, 0, 0, 0, 0, 0)]
        for nm, si, so in symbols:
            noff = len(strtab)
            strtab += nm.encode() + b"\0"
            val = sections[si].addr + so
            info = (1 << 4) | 2  # GLOBAL FUNC
            if is64:
                ents.append(struct.pack("<IBBHQQ", noff, info, 0, si + 1, val, 0))
            else:
                ents.append(struct.pack("<IIIBBH", noff, val & 0xFFFFFFFF, 0, info, 0, si + 1))
        symtab = b"".join(ents)
        off = (off + 7) & ~7
        symtab_off = off
        blobs.append((off, symtab))
        off += len(symtab)
        strtab_off = off
        blobs.append((off, strtab))
        off += len(strtab)
    shoff = (off + 7) & ~7
    nsec = 1 + len(sections) + 1 + (2 if symbols else 0)
    shstrndx = 1 + len(sections)

    def sh(name, typ, flags, addr, offset, size, link=0, info=0, align=1, entsize=0):
        if is64:
            return struct.pack("<IIQQQQIIQQ", name, typ, flags, addr, offset, size, link, info, align, entsize)
        return struct.pack("<IIIIIIIIII", name, typ, flags, addr & 0xFFFFFFFF, offset, size, link, info, align, entsize)

    shdrs = [sh(0, SHT_NULL, 0, 0, 0, 0, align=0)]
    for s, o in zip(sections, layout):
        flags = SHF_ALLOC | (SHF_EXEC if s.exec_ else SHF_WRITE)
        shdrs.append(sh(name_off[s.name], SHT_PROGBITS, flags, s.addr, o, getattr(s, "claimed_size", None) or len(s.data), align=1))
    shdrs.append(sh(name_off[".shstrtab"], SHT_STRTAB, 0, 0, shstr_off, len(shstr)))
    if symbols:
        shdrs.append(sh(name_off[".symtab"], SHT_SYMTAB, 0, 0, symtab_off, len(symtab), link=nsec - 1, info=1,
                        align=8, entsize=24 if is64 else 16))
        shdrs.append(sh(name_off[".strtab"], SHT_STRTAB, 0, 0, strtab_off, len(strtab)))
    ident = b"\x7fELF" + bytes([2 if is64 else 1, 1, 1, 0]) + b"\0" * 8
    machine = 62 if is64 else 3
    entry = sections[0].addr if sections else 0
    if is64:
        hdr = ident + struct.pack("<HHIQQQIHHHHHH", 2, machine, 1, entry, 0, shoff, 0, ehsize, 0, 0, shentsize, nsec, shstrndx)
    else:
        hdr = ident + struct.pack("<HHIIIIIHHHHHH", 2, machine, 1, entry & 0xFFFFFFFF, 0, shoff, 0, ehsize, 0, 0, shentsize, nsec, shstrndx)
    out = bytearray(shoff + len(shdrs) * shentsize)
    out[: len(hdr)] = hdr
    for o, b in blobs:
        out[o:o + len(b)] = b
    p = shoff
    for h in shdrs:
        out[p:p + len(h)] = h
        p += len(h)
    return bytes(out)


# ------------------------------------------------------------------ code byte generators

PREFIX_BYTES = [0x66, 0x67, 0x2E, 0x3E, 0x26, 0x36, 0x64, 0x65, 0xF0, 0xF2, 0xF3, 0x40, 0x41, 0x48, 0x49, 0x4C, 0x4F, 0xC4, 0xC5, 0x62,
                0xD8, 0xD9, 0xDB, 0xDD, 0xDF, 0x0F]
JCC = list(range(0x70, 0x80))


def random_code(rng, n: int, mode: str = "uniform") -> bytes:
    if mode == "uniform":
        return bytes(rng.randrange(256) for _ in range(n))
    out = bytearray()
    while len(out) < n:
        r = rng.random()
        if r < 0.02:
            out += b"\x00" * rng.randint(9, 48)      # objdump elides runs of zeros as "\t..."
            continue
        if r < 0.25:
            out += bytes(rng.choice(PREFIX_BYTES) for _ in range(rng.randint(1, 3)))
        if r < 0.15:
            out += bytes([rng.choice([0x2E, 0x3E]), rng.choice(JCC), rng.randrange(256)])
        elif r < 0.3:
            # ModRM-heavy: opcode + modrm + sib + disp
            out += bytes([rng.choice([0x89, 0x8B, 0x8D, 0x01, 0x03, 0x29, 0x31, 0x39, 0x85, 0xFF, 0xC7, 0x83, 0x81, 0x0F]),
                          rng.randrange(256), rng.randrange(256)]) + bytes(rng.randrange(256) for _ in range(rng.randint(0, 5)))
        elif r < 0.4:
            out += bytes([rng.choice([0xE8, 0xE9, 0xEB, 0xC3, 0xC2, 0xCC, 0x90, 0xC9, 0x50, 0x58, 0x6A, 0x68])]) + bytes(
                rng.randrange(256) for _ in range(rng.randint(0, 4)))
        else:
            out += bytes(rng.randrange(256) for _ in range(rng.randint(1, 8)))
    return bytes(out[:n])
