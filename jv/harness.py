"""Common machinery: sharded workers, three-valued verdicts, evidence and replay
files, known-finding attribution, exit contract."""
from __future__ import annotations

import argparse
import hashlib
import importlib
import json
import os
import random
import shutil
import subprocess
import sys
import tempfile
import time
from typing import Any, Dict, List, Optional

VERIF = os.path.dirname(os.path.dirname(os.path.abspath(__file__)))
JASM_REPO = os.environ.get("JASM_REPO", "/repo")
PY = "/venv/bin/python"
NCPU = min(16, os.cpu_count() or 4)


def sha(obj) -> str:
    return hashlib.sha256(json.dumps(obj, sort_keys=True, default=str).encode()).hexdigest()


def h64(obj) -> int:
    return int(sha(obj)[:15], 16)


def load_known() -> List[dict]:
    p = os.path.join(VERIF, "known_findings.json")
    if not os.path.exists(p):
        return []
    with open(p) as f:
        return json.load(f)["findings"]


class Shard:
    """Per-worker recording context handed to a property's run_shard()."""

    MAX_SAMPLES = 6
    MAX_VIOL = 5

    def __init__(self, prop: str, shard: int, nshards: int, seed: int, tier: str):
        self.prop = prop
        self.shard = shard
        self.nshards = nshards
        self.seed = seed
        self.tier = tier
        self.rng = random.Random(f"{seed}/{prop}/{shard}")
        self.evaluations = 0
        self.sigs = set()
        self.strata: Dict[str, int] = {}
        self.outcomes: Dict[str, int] = {}
        self.events: Dict[str, int] = {}
        self.samples: List[Any] = []
        self.sample_kinds = set()
        self.violations: List[dict] = []
        self.nviol = 0
        self.known: Dict[str, dict] = {}
        self.inconclusive: Dict[str, int] = {}
        self.notes: List[str] = []
        self.open_keys = {f["key"] for f in load_known() if f["property"] == prop and f["status"] == "open"}
        # logical budgets decide how much is run; this wall-clock budget only stops a shard early when the code under
        # test has become pathologically slow (its result is then judged on what was observed, or is inconclusive)
        self.deadline = time.time() + float(os.environ.get("JV_SHARD_BUDGET_S", "400" if tier == "quick" else "10800"))
        self.sidecar = None

    # -- sizing
    def share(self, quick: int, thorough: int) -> int:
        total = quick if self.tier == "quick" else thorough
        scale = float(os.environ.get("JV_SCALE", "1"))
        total = max(1, int(total * scale))
        base, rem = divmod(total, self.nshards)
        return base + (1 if self.shard < rem else 0)

    def out_of_time(self) -> bool:
        return time.time() > self.deadline

    # -- recording
    def ran(self, n: int = 1):
        self.evaluations += n

    def case(self, sig, nontrivial: bool, stratum: str = "", outcome: str = ""):
        if nontrivial:
            self.sigs.add(h64(sig))
        if stratum:
            self.strata[stratum] = self.strata.get(stratum, 0) + 1
        if outcome:
            self.outcomes[outcome] = self.outcomes.get(outcome, 0) + 1

    def event(self, name: str, n: int = 1):
        self.events[name] = self.events.get(name, 0) + n

    def sample(self, kind: str, case: Any):
        """Keep one sample per kind (positive, near-miss, ...) up to a cap."""
        if kind in self.sample_kinds or len(self.samples) >= self.MAX_SAMPLES:
            return
        self.sample_kinds.add(kind)
        self.samples.append({"kind": kind, "case": case})

    def inconc(self, reason: str):
        self.inconclusive[reason] = self.inconclusive.get(reason, 0) + 1

    def ambient_log(self, level: Optional[str] = None):
        """Context manager: jasm's logger at a randomly drawn level (what --info / --debug set) for the duration of one judged case.
        The level never changes a result; the draw is counted in the evidence."""
        from . import real
        level = level or self.rng.choice(["warning"] * 6 + ["info"] + ["debug"] * 3)
        self.event("cases_run_with_log_level_" + level)
        self.last_log_level = level
        return real.log_level(level)

    def disagreement(self, case: dict, why: str, key: Optional[str] = None):
        """A refuting observation. Attributed to open finding `key` if listed, else a violation."""
        if key is not None and key in self.open_keys:
            k = self.known.setdefault(key, {"count": 0, "example": None})
            k["count"] += 1
            if k["example"] is None:
                k["example"] = {"why": why, "case": case}
            return
        self.nviol += 1
        if len(self.violations) < self.MAX_VIOL:
            v = {"why": why, "case": case, "unlisted_key": key}
            self.violations.append(v)
            if self.sidecar:
                # written at once, so that a violation observed before a worker dies (e.g. killed for memory) is not lost
                try:
                    with open(self.sidecar, "a") as f:
                        f.write(json.dumps(v, default=str) + "\n")
                except OSError:
                    pass

    def result(self) -> dict:
        return {
            "evaluations": self.evaluations, "sigs": sorted(self.sigs), "strata": self.strata,
            "outcomes": self.outcomes, "events": self.events, "samples": self.samples,
            "violations": self.violations, "nviol": self.nviol, "known": self.known,
            "inconclusive": self.inconclusive, "notes": self.notes,
        }


# ------------------------------------------------------------------ anchors

def start_anchor_recorder():
    """Record which functions under $JASM_REPO/src/jasm executed (PY_START, DISABLE after first)."""
    reached = set()
    mon = getattr(sys, "monitoring", None)
    if mon is None:
        return reached
    root = os.path.realpath(os.path.join(JASM_REPO, "src", "jasm")) + os.sep
    tool = 4
    try:
        mon.use_tool_id(tool, "jv-anchors")
    except ValueError:
        return reached

    def on_start(code, offset):
        fn = code.co_filename
        if fn.startswith(root) or os.path.realpath(fn).startswith(root):
            reached.add(os.path.basename(fn) + ":" + code.co_qualname)
        return mon.DISABLE

    mon.register_callback(tool, mon.events.PY_START, on_start)
    mon.set_events(tool, mon.events.PY_START)
    return reached


# ------------------------------------------------------------------ worker entry

def worker_main(argv=None):
    ap = argparse.ArgumentParser()
    ap.add_argument("prop")
    ap.add_argument("--shard", type=int, default=0)
    ap.add_argument("--nshards", type=int, default=1)
    ap.add_argument("--seed", type=int, default=0)
    ap.add_argument("--tier", default="quick")
    ap.add_argument("--out", required=True)
    a = ap.parse_args(argv)
    reached = start_anchor_recorder()
    try:
        import resource
        lim = int(float(os.environ.get("JV_WORKER_MEM_GB", "8")) * 2 ** 30)
        resource.setrlimit(resource.RLIMIT_AS, (lim, lim))      # a runaway regex fails with MemoryError instead of being OOM-killed
    except Exception:  # noqa: BLE001
        pass
    mod = importlib.import_module(f"jv.props.{a.prop.lower()}")
    ctx = Shard(a.prop, a.shard, a.nshards, a.seed, a.tier)
    ctx.sidecar = a.out + ".viol"
    mod.run_shard(ctx)
    res = ctx.result()
    res["anchors"] = sorted(reached)
    with open(a.out, "w") as f:
        json.dump(res, f)


# ------------------------------------------------------------------ parent

def child_env() -> dict:
    env = dict(os.environ)
    env["PYTHONPATH"] = VERIF + os.pathsep + os.path.join(JASM_REPO, "src")
    env["PYTHONHASHSEED"] = "0"
    env["PYTHONDONTWRITEBYTECODE"] = "1"
    env["JASM_VERIF"] = "1"
    env["JASM_REPO"] = JASM_REPO
    return env


def run_check(prop: str, tier: str, seed: int) -> int:
    t0 = time.time()
    mod = importlib.import_module(f"jv.props.{prop.lower()}")
    nshards = getattr(mod, "SHARDS", {"quick": NCPU, "thorough": NCPU * 4}).get(tier, NCPU)
    tmp = tempfile.mkdtemp(prefix=f"jv_{prop}_")
    shm = "/dev/shm" if os.path.isdir("/dev/shm") and os.access("/dev/shm", os.W_OK) else None
    wsbase = tempfile.mkdtemp(prefix=f"jv_run_{prop}_", dir=shm)      # workers' scratch files; removed here even if a worker is killed
    watchdog = float(os.environ.get("JV_WATCHDOG_S", getattr(mod, "WATCHDOG", {"quick": 900, "thorough": 6 * 3600})[tier]))
    results, failed = [], []
    try:
        pending = list(range(nshards))
        running = []
        env = child_env()
        env["JV_WS_BASE"] = wsbase
        while pending or running:
            while pending and len(running) < NCPU:
                k = pending.pop(0)
                out = os.path.join(tmp, f"s{k}.json")
                log = open(os.path.join(tmp, f"s{k}.log"), "w")
                p = subprocess.Popen(
                    [PY, "-m", "jv.worker", prop, "--shard", str(k), "--nshards", str(nshards),
                     "--seed", str(seed), "--tier", tier, "--out", out],
                    cwd=VERIF, env=env, stdout=log, stderr=subprocess.STDOUT)
                running.append((k, p, out, log, time.time()))
            time.sleep(0.02)
            still = []
            for k, p, out, log, st in running:
                rc = p.poll()
                if rc is None:
                    if time.time() - st > watchdog:
                        p.kill()
                        p.wait()
                        log.close()
                        failed.append((k, "watchdog"))
                    else:
                        still.append((k, p, out, log, st))
                    continue
                log.close()
                if rc == 0 and os.path.exists(out):
                    with open(out) as f:
                        results.append(json.load(f))
                else:
                    with open(log.name) as f:
                        tail = f.read()[-1500:]
                    failed.append((k, f"exit {rc}: {tail}"))
                    side = out + ".viol"
                    if os.path.exists(side):
                        vs = [json.loads(x) for x in open(side).read().split("\n") if x.strip()]
                        if vs:
                            results.append({"evaluations": 0, "sigs": [], "strata": {}, "outcomes": {}, "events": {}, "samples": [],
                                            "violations": vs[:5], "nviol": len(vs), "known": {}, "inconclusive": {},
                                            "notes": [f"shard {k} died (exit {rc}) after observing {len(vs)} violation(s)"], "anchors": ["(dead shard)"]})
            running = still
    finally:
        shutil.rmtree(tmp, ignore_errors=True)
        shutil.rmtree(wsbase, ignore_errors=True)
    return finish(prop, tier, seed, mod, results, failed, time.time() - t0, nshards)


def finish(prop, tier, seed, mod, results, failed, wall, nshards) -> int:
    agg = {"evaluations": 0, "strata": {}, "outcomes": {}, "events": {}, "inconclusive": {}}
    sigs = set()
    samples, violations, notes = [], [], []
    known: Dict[str, dict] = {}
    anchors = set()
    nviol = 0
    for r in results:
        agg["evaluations"] += r["evaluations"]
        sigs.update(r["sigs"])
        for k in ("strata", "outcomes", "events", "inconclusive"):
            for a, b in r[k].items():
                agg[k][a] = agg[k].get(a, 0) + b
        kinds = {s["kind"] for s in samples}
        for s in r["samples"]:
            if s["kind"] not in kinds and len(samples) < 8:
                samples.append(s)
                kinds.add(s["kind"])
        violations += r["violations"]
        nviol += r["nviol"]
        notes += r.get("notes", [])
        for k, v in r["known"].items():
            e = known.setdefault(k, {"count": 0, "example": v["example"]})
            e["count"] += v["count"]
        anchors.update(r.get("anchors", []))

    floor = getattr(mod, "FLOOR", {"quick": 2, "thorough": 2})[tier]
    scale = float(os.environ.get("JV_SCALE", "1"))
    floor = max(2, int(floor * min(1.0, scale)))
    reasons = []
    if failed:
        reasons.append("shards failed: " + "; ".join(f"#{k} {why[:300]}" for k, why in failed[:3]))
    if len(sigs) < floor:
        reasons.append(f"distinct_nontrivial {len(sigs)} below floor {floor}")
    if not anchors:
        reasons.append("no function under src/jasm was executed")
    need = getattr(mod, "REQUIRED_EVENTS", [])
    for ev in need:
        if agg["events"].get(ev, 0) == 0:
            reasons.append(f"deciding monitor never reached: {ev}")

    kf = {f["key"]: f for f in load_known() if f["property"] == prop}
    evidence = {
        "property_id": prop, "tier": tier, "seed": seed, "level": mod.LEVEL,
        "coverage": {
            "evaluations": agg["evaluations"], "distinct_nontrivial": len(sigs), "rule": mod.RULE,
            "samples": samples, "strata": agg["strata"], "outcomes": agg["outcomes"],
            "events": agg["events"], "inconclusive_cases": agg["inconclusive"],
            "anchors_reached": sorted(a for a in anchors if any(x in a for x in getattr(mod, "ANCHOR_HINTS", [""])))[:60],
            "functions_executed": len(anchors),
            "known_findings_observed": {k: v["count"] for k, v in known.items()},
            "shards": nshards, "verdict": "violated" if nviol else ("inconclusive" if reasons else "held"),
            "inconclusive_reasons": reasons, "notes": notes[:10],
        },
        "assumptions": getattr(mod, "ASSUMPTIONS", []) + [
            "CPython 3.12, regex and PyYAML wheels in /venv, binutils 2.40 are trusted",
            "results hold for the executions produced by this seeded workload only",
        ],
        "wall_s": round(wall, 2), "violations": nviol,
    }
    evdir = os.environ.get("JV_EVIDENCE_DIR") or os.path.join(VERIF, "evidence")
    os.makedirs(evdir, exist_ok=True)
    with open(os.path.join(evdir, f"{prop}.json"), "w") as f:
        json.dump(evidence, f, indent=1, default=str)

    for k, v in sorted(known.items()):
        what = kf.get(k, {}).get("what_fails", k)
        print(f"KNOWN-FINDING: property={prop} [{k}] {what} (observed {v['count']}x this run)")
    rc = 0
    if os.environ.get("JV_DEBUG"):
        for v in violations:
            print("  DEBUG violation:", v["why"][:int(os.environ.get("JV_DEBUG_LEN", "220"))].replace("\n", " "))
    if nviol:
        rdir = os.path.join(os.environ.get("JV_REPLAY_DIR") or os.path.join(VERIF, "replays"), prop)
        os.makedirs(rdir, exist_ok=True)
        for v in violations[:5]:
            doc = {"property": prop, "seed": seed, "tier": tier, "why": v["why"], "case": v["case"],
                   "unlisted_key": v.get("unlisted_key")}
            p = os.path.join(rdir, sha(doc)[:16] + ".json")
            with open(p, "w") as f:
                json.dump(doc, f, indent=1, default=str)
            print(f"VIOLATION property={prop} replay={p}")
            print(f"  why: {v['why'][:500]}")
        rc = 1
    elif reasons:
        print(f"INCONCLUSIVE property={prop} reason={' | '.join(reasons)}")
        rc = 3
    print(f"{prop} {tier} seed={seed}: verdict={evidence['coverage']['verdict']} evaluations={agg['evaluations']} "
          f"distinct_nontrivial={len(sigs)} known={sum(v['count'] for v in known.values())} "
          f"violations={nviol} inconclusive_cases={sum(agg['inconclusive'].values())} wall={wall:.1f}s")
    return rc


def run_replay(prop: str, path: str) -> int:
    with open(path) as f:
        doc = json.load(f)
    env = child_env()
    code = ("import json,sys,importlib; from jv import harness; "
            f"mod=importlib.import_module('jv.props.{prop.lower()}'); "
            f"ctx=harness.Shard('{prop}',0,1,0,'quick'); "
            "doc=json.load(open(sys.argv[1])); mod.replay(ctx, doc['case']); r=ctx.result(); "
            "print(json.dumps({'violations':r['violations'],'known':r['known'],'inconclusive':r['inconclusive']},indent=1,default=str)); "
            "sys.exit(1 if r['nviol'] else 0)")
    p = subprocess.run([PY, "-c", code, path], cwd=VERIF, env=env)
    if p.returncode == 1:
        print(f"VIOLATION property={prop} replay={path}")
    return p.returncode


def main(argv=None) -> int:
    ap = argparse.ArgumentParser(prog="check")
    ap.add_argument("prop")
    ap.add_argument("--tier", default=os.environ.get("VERIF_TIER", "quick"), choices=["quick", "thorough"])
    ap.add_argument("--replay")
    ap.add_argument("--seed", type=int, default=int(os.environ.get("VERIF_SEED", "0") or 0))
    a = ap.parse_args(argv)
    prop = a.prop.upper()
    if a.replay:
        return run_replay(prop, a.replay)
    return run_check(prop, a.tier, a.seed)
