"""Off-by-default wrappers installed from the harness around real functions
(no change to the repository): they record events and intermediate state."""
from __future__ import annotations

import functools


class Recorder:
    def __init__(self):
        self.events = []
        self.missing = []

    def clear(self):
        self.events.clear()


def _wrap(owner, name, rec, before=None, after=None):
    fn = getattr(owner, name, None)
    if fn is None:
        rec.missing.append(f"{getattr(owner, '__name__', owner)}.{name}")
        return None

    @functools.wraps(fn)
    def w(*a, **k):
        if before:
            before(*a, **k)
        r = fn(*a, **k)
        if after:
            after(r, *a, **k)
        return r
    setattr(owner, name, w)
    return fn


def install_observer_hooks(rec: Recorder):
    """H1: MatchedObserver.regex_matched / finalize, CompleteConsumer.consume_instruction / finalize."""
    try:
        from jasm import matched_observers as mo, consumer as co
    except Exception as e:  # noqa: BLE001
        rec.missing.append("import:" + str(e))
        return
    MO = getattr(mo, "MatchedObserver", None)
    CC = getattr(co, "CompleteConsumer", None)
    if MO is not None:
        _wrap(MO, "regex_matched", rec, before=lambda self, addr: rec.events.append(("hit", addr)))
        _wrap(MO, "finalize", rec, before=lambda self: rec.events.append(
            ("observer_finalize", bool(getattr(self, "matched", None)), list(getattr(self, "addr_list", [])))))
    else:
        rec.missing.append("MatchedObserver")
    if CC is not None:
        _wrap(CC, "consume_instruction", rec, before=lambda self, inst: rec.events.append(
            ("inst", getattr(inst, "addr", None), getattr(inst, "mnemonic", None), tuple(getattr(inst, "operands", ()) or ()))))
    else:
        rec.missing.append("CompleteConsumer")


def install_scan_hook(rec: Recorder):
    """H3: regex.search / regex.finditer as seen from jasm.consumer."""
    try:
        from jasm import consumer as co
    except Exception as e:  # noqa: BLE001
        rec.missing.append("import:" + str(e))
        return
    rx = getattr(co, "regex", None)
    if rx is None:
        rec.missing.append("consumer.regex")
        return

    class Proxy:
        def __getattr__(self, name):
            return getattr(rx, name)

        def search(self, *a, **k):
            rec.events.append(("scan", "search", k.get("pattern", a[0] if a else None), k.get("string", a[1] if len(a) > 1 else None)))
            m = rx.search(*a, **k)
            if m is not None:
                rec.events.append(("span", m.start(), m.end()))
            return m

        def finditer(self, *a, **k):
            rec.events.append(("scan", "finditer", k.get("pattern", a[0] if a else None), k.get("string", a[1] if len(a) > 1 else None)))

            def gen():
                for m in rx.finditer(*a, **k):
                    rec.events.append(("span", m.start(), m.end()))
                    yield m
            return gen()
    co.regex = Proxy()
