"""S-syn: synthetic instruction listings rendered as objdump -d -M att text,
with vocabularies built for near misses."""
from __future__ import annotations

import random
from typing import List, Optional

from . import refline

MNEMONIC_FAMILIES = [
    ["mov", "movl", "movq", "movabs", "cmov", "cmovne", "movzbl"],
    ["call", "callq"],
    ["push", "pushf", "pushq"],
    ["add", "addl", "adc", "fadd"],
    ["ret", "retq", "lret"],
    ["nop", "nopw", "nopl"],
    ["jmp", "jmpq", "je", "jne", "jg", "jge"],
    ["sub", "subl", "sbb"],
    ["xor", "xorl", "or", "orl"],
    ["lea", "leaq", "leave"],
    ["cmp", "cmpl", "test"],
    ["pop", "popf"],
    ["inc", "dec", "int3"],
    ["shl", "shr", "sal", "sar", "rol", "ror"],
]
ALL_MNEMONICS = [m for fam in MNEMONIC_FAMILIES for m in fam]
NOOP_MNEMONICS = ["ret", "retq", "lret", "nop", "leave", "int3", "pushf", "popf", "cltq", "hlt"]

REG_FAMILIES = [
    ["%rax", "%eax", "%ax", "%al", "%ah"],
    ["%rbx", "%ebx", "%bx", "%bl", "%bh"],
    ["%rcx", "%ecx", "%cx", "%cl", "%ch"],
    ["%rdx", "%edx", "%dx", "%dl", "%dh"],
    ["%rsi", "%esi", "%si", "%sil"],
    ["%rdi", "%edi", "%di", "%dil"],
    ["%rsp", "%esp", "%sp", "%spl"],
    ["%rbp", "%ebp", "%bp", "%bpl"],
    ["%r8", "%r8d", "%r8w", "%r8b"],
    ["%r9", "%r9d", "%r9w", "%r9b"],
    ["%r10", "%r10d", "%r10w", "%r10b"],
    ["%r12", "%r12d", "%r13", "%r13d"],
]
ALL_REGS = [r for fam in REG_FAMILIES for r in fam]
REGS64 = ["%rax", "%rbx", "%rcx", "%rdx", "%rsi", "%rdi", "%rsp", "%rbp", "%r8", "%r9", "%r10", "%r12", "%r13", "%rip"]
IMMS = ["0x1", "0x10", "0x100", "0x0", "0x8", "0x18", "0x80", "0x28", "0xff", "0xfffffffffffffff8", "0x2", "0x20"]
DISPS = ["0x0", "0x8", "0x18", "0x80", "-0x8", "-0x18", "0x10", "0x100", "-0x80", "0x28"]
SCALES = ["1", "2", "4", "8"]
SYMS = ["main", "f", "_init", "foo.part.0", "printf@plt", "deadbeef", "add", "__libc_start_main",
        # demangled names (objdump -C): blanks, commas, parentheses and angle brackets inside the annotation
        "foo(int, char)", "std::vector<int, std::allocator<int> >::push_back(int const&)", "operator new(unsigned long)", "ns::f<a, b>(x*)",
        "log(char const*, ...)", "void emit<int, char...>(int, char...)", "..."]


class SInst:
    """One synthetic instruction (AT&T spelling)."""
    __slots__ = ("addr", "mnem", "ops", "annotation", "comment", "nbytes", "verbatim")

    def __init__(self, addr: int, mnem: str, ops: List[str], annotation=None, comment=None, nbytes=3, verbatim=False):
        self.addr = addr
        self.mnem = mnem
        self.ops = ops
        self.annotation = annotation
        self.comment = comment
        self.nbytes = nbytes
        self.verbatim = verbatim      # operands outside the normal-form table that reach the stream as they are printed (%zmm0{%k1}{z}, {rn-sae})

    def fields(self):
        """Expected (addr, mnemonic, operand fields) in normal form."""
        norm = []
        for o in self.ops:
            n = refline.normalize_operand(o)
            if n is None and self.verbatim and "(" not in o and "$" not in o:
                n = o
            if n is None:
                raise ValueError(f"operand outside the specified shapes: {o}")
            norm.append(n)
        mnem = self.mnem[1:-1] if self.mnem.startswith("(") and self.mnem.endswith(")") else self.mnem      # objdump's (bad) reaches the stream as bad
        return (format(self.addr, "x"), mnem, tuple(norm) if norm else ("",))


def rand_mem(rng: random.Random) -> str:
    shape = rng.choice(["k(a,b,c)", "(a,b,c)", "k(,b,c)", "k(a)", "(a)"])
    a, b = rng.choice(REGS64[:-1]), rng.choice(REGS64[:-3])
    c, k = rng.choice(SCALES), rng.choice(DISPS)
    return {"k(a,b,c)": f"{k}({a},{b},{c})", "(a,b,c)": f"({a},{b},{c})", "k(,b,c)": f"{k}(,{b},{c})",
            "k(a)": f"{k}({a})", "(a)": f"({a})"}[shape]


def rand_operand(rng: random.Random, regs=None) -> str:
    r = rng.random()
    if r < 0.5:
        return rng.choice(regs or ALL_REGS)
    if r < 0.75:
        return "$" + rng.choice(IMMS)
    return rand_mem(rng)


def rand_inst_body(rng: random.Random, mnems=None, regs=None):
    r = rng.random()
    mn_pool = mnems or ALL_MNEMONICS
    if r < 0.12:
        return rng.choice(NOOP_MNEMONICS if not mnems else mn_pool), []
    if r < 0.22:
        m = rng.choice(["call", "callq", "jmp", "je", "jne", "jmpq"] if not mnems else mn_pool)
        return m, ["@target"]
    m = rng.choice(mn_pool)
    n = rng.choice([1, 2, 2, 2, 3])
    return m, [rand_operand(rng, regs) for _ in range(n)]


def gen_listing(rng: random.Random, n: int, mnems=None, regs=None, start: Optional[int] = None) -> List[SInst]:
    addr = start if start is not None else rng.choice([0x0, 0x10, 0x401000, 0x1139, 0x7f0000001000, 0xadd0, 0xdec0])
    out = []
    for _ in range(n):
        m, ops = rand_inst_body(rng, mnems, regs)
        nb = rng.randint(1, 11)
        ann = None
        com = None
        if ops == ["@target"]:
            tgt = rng.choice([addr + rng.randint(-64, 64), rng.randint(0, 0x500000)])
            tgt = max(tgt, 0)
            ops = [format(tgt, "x")]
            if rng.random() < 0.8:
                sym = rng.choice(SYMS)
                off = rng.choice(["", "+0x%x" % rng.randint(1, 300)])
                ann = f"<{sym}{off}>"
        elif any("%rip" in o for o in ops) and rng.random() < 0.7:
            com = f"# {rng.randint(0, 0x5000):x} <{rng.choice(SYMS)}+0x{rng.randint(1, 99):x}>"
        out.append(SInst(addr, m, ops, ann, com, nb))
        addr += nb
    return out


def render_inst(si: SInst, rng: Optional[random.Random] = None, width: int = 8) -> List[str]:
    rng = rng or random.Random(si.addr)
    by = ["%02x" % rng.randrange(256) for _ in range(si.nbytes)]
    first, rest = by[:7], by[7:]
    col = "".join(b + " " for b in first).ljust(21)
    addr = format(si.addr, "x").rjust(width)
    text = si.mnem
    if si.ops:
        text = si.mnem.ljust(6) + " " + ",".join(si.ops)
    if si.annotation:
        text += " " + si.annotation
    if si.comment:
        text += "        " + si.comment
    lines = [f"{addr}:\t{col}\t{text}"]
    a = si.addr + 7
    while rest:
        chunk, rest = rest[:7], rest[7:]
        lines.append(f"{format(a, 'x').rjust(width)}:\t" + "".join(b + " " for b in chunk))
        a += 7
    return lines


def render(insts: List[SInst], rng: Optional[random.Random] = None, header=True, labels=True) -> str:
    rng = rng or random.Random(len(insts))
    out = []
    if header:
        out += ["", "a.out:     file format elf64-x86-64", "", "", "Disassembly of section .text:", ""]
    width = 8 if (not insts or insts[-1].addr < 0x100000000) else 12
    for n, si in enumerate(insts):
        if n and si.addr < insts[n - 1].addr:
            out += ["", f"Disassembly of section .text.{n}:", ""]
        if labels and (n == 0 or rng.random() < 0.08):
            if n:
                out.append("")
            out.append(f"{si.addr:016x} <{rng.choice(SYMS)}>:")
        out += render_inst(si, rng, width)
    return "\n".join(out) + "\n"


def expected_fields(insts: List[SInst]):
    return [si.fields() for si in insts]
