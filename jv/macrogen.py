"""Random factoring of a macro-free pattern into macros (inverse inlining).

`factor(rng, pattern)` returns (inlined_pattern, macro_pattern, macros): the inlined
pattern is ground truth by construction - every step replaces a sub-tree of the
macro version by a macro use whose manual inlining is exactly that sub-tree."""
from __future__ import annotations

import copy
import random
from typing import Any, List, Optional, Tuple

# names of different lengths, none contained in another (an expander that reorders macros by name must not matter)
FORMAL_POOL = ["reg", "r", "x", "imm", "op", "a", "ax", "o", "e", "0", "1", "mov", "push", "reg1", "src", "dst"]


def _all_strings(node):
    """Every string / key / scalar occurring anywhere in a pattern tree."""
    if isinstance(node, dict):
        for k, v in node.items():
            yield str(k)
            yield from _all_strings(v)
    elif isinstance(node, list):
        for x in node:
            yield from _all_strings(x)
    elif node is not None:
        yield str(node)


NAME_POOL = ["@q_", "@macro_B_", "@zz_c_", "@d1_", "@long_name_E_", "@f_", "@mG_", "@a_very_long_macro_name_H_", "@gp-reg_", "@save.all_", "@k-9_"]


class Opaque(dict):
    """A parameterised macro call node: never entered by later factoring steps."""


def _paths(node, path=()):
    """All (path, value, parent) with parent a list or dict, not entering Opaque nodes."""
    if isinstance(node, Opaque):
        return
    if isinstance(node, list):
        for i, v in enumerate(node):
            yield path + (i,), v, node
            yield from _paths(v, path + (i,))
    elif isinstance(node, dict):
        for k, v in node.items():
            yield path + (k,), v, node
            yield from _paths(v, path + (k,))


def _get(root, path):
    for p in path:
        root = root[p]
    return root


def _set(root, path, val):
    for p in path[:-1]:
        root = root[p]
    root[path[-1]] = val


def _has_at(node) -> bool:
    if isinstance(node, str):
        return "@" in node
    if isinstance(node, list):
        return any(_has_at(x) for x in node)
    if isinstance(node, dict):
        return any(_has_at(k) or _has_at(v) for k, v in node.items())
    return False


def _leaf_strings(node, path=()):
    """(path, value) for list items / dict values that are plain literal strings or integers (0 included)."""
    if isinstance(node, list):
        for i, v in enumerate(node):
            if isinstance(v, (str, int)) and not isinstance(v, bool):
                yield path + (i,), v
            else:
                yield from _leaf_strings(v, path + (i,))
    elif isinstance(node, dict):
        for k, v in node.items():
            if k == "times":
                # a repetition count or bound handed in as an argument: integers only (that is what a literal count is)
                if isinstance(v, int) and not isinstance(v, bool):
                    yield path + (k,), v
                elif isinstance(v, dict):
                    for kk, vv in v.items():
                        if kk in ("min", "max") and isinstance(vv, int) and not isinstance(vv, bool):
                            yield path + (k, kk), vv
                continue
            if isinstance(v, (str, int)) and not isinstance(v, bool):
                yield path + (k,), v
            else:
                yield from _leaf_strings(v, path + (k,))


def plain(s) -> bool:
    if isinstance(s, int) and not isinstance(s, bool):
        return True
    return isinstance(s, str) and s != "" and not s.startswith(("&", "$", "@")) and "@" not in s


class Factoring:
    def __init__(self, rng: random.Random, pattern: list, decoys: List[str], resub_probe=False):
        self.rng = rng
        self.inl = copy.deepcopy(pattern)      # inlined twin (grows when extra uses are inserted)
        self.mac = copy.deepcopy(pattern)      # macro version
        self.macros: List[dict] = []
        self.decoys = ([d for d in decoys if plain(d)] or ["%zz"]) + [0, 0, 1, "0x0"]
        self.forms: List[str] = []
        self.resub_probe = resub_probe
        self.resub_used = False

    def new_name(self) -> Optional[str]:
        if not hasattr(self, "_names"):
            self._names = list(NAME_POOL)
            self.rng.shuffle(self._names)
        return self._names[len(self.macros)] if len(self.macros) < 6 else None

    def step(self) -> bool:
        rng = self.rng
        name = self.new_name()
        if name is None:
            return False
        # target tree: the macro version of the rule, or the body of an earlier non-parameterised list-bodied macro
        targets = [("rule", self.mac)]
        for m in self.macros:
            if "args" not in m and isinstance(m["pattern"], list):
                targets.append(("body", m["pattern"]))
        kind, tree = rng.choice(targets) if rng.random() < 0.35 else targets[0]
        cands = [(p, v, par) for p, v, par in _paths(tree) if "times" not in p[:-1] and p[-1] != "times"]
        rng.shuffle(cands)
        for path, val, parent in cands[:40]:
            form = rng.choice(["item", "item", "substring", "value", "times-body", "param", "param"])
            in_list = isinstance(parent, list)
            if form == "item" and in_list and not _has_at(val) and not isinstance(val, Opaque):
                body = val if (isinstance(val, str) and val != "" and rng.random() < 0.7) else [copy.deepcopy(val)]
                _set(tree, path, name)
                self.macros.append({"name": name, "pattern": body})
                self.forms.append("item:" + ("str-body" if isinstance(body, str) else "list-body"))
                if in_list and kind == "rule" and rng.random() < 0.4 and not (len(path) >= 2 and path[-2] in ("$not", "$and_any_order")):
                    # a second use of the same macro: the inlined twin gets a copy of the sub-tree
                    idx = path[-1]
                    parent.insert(idx, name)
                    _get(self.inl, path[:-1]).insert(idx, copy.deepcopy(val))
                    self.forms.append("item:second-use")
                return True
            if form == "times-body" and in_list and isinstance(val, dict) and len(val) == 1:
                k0 = next(iter(val))
                if isinstance(k0, str) and plain(k0) and k0 != "times" and isinstance(val[k0], dict) and set(val[k0]) == {"times"}:
                    _set(tree, path, {name: copy.deepcopy(val[k0])})
                    self.macros.append({"name": name, "pattern": k0})
                    self.forms.append("times-body")
                    return True
            if form == "substring" and isinstance(val, str) and plain(val) and len(val) >= 2 and (in_list or path[-1] != "times"):
                a = rng.randrange(0, len(val))
                b = rng.randrange(a + 1, len(val) + 1)
                pre, mid, post = val[:a], val[a:b], val[b:]
                if mid and (pre or post):
                    body = mid
                    if kind == "rule" and rng.random() < 0.25:
                        # the body of a string macro is a piece of regex text: written with escapes (\\d, \\w, \\x41, \\b) it must arrive in
                        # the name exactly as written - the inlined twin carries the same characters
                        body = "".join((rng.choice(["\\d", "[\\da-f]"]) if c.isdigit() else rng.choice(["\\w", "[a-z]", "\\x%02x" % ord(c)]) if c.isalpha() else c)
                                       for c in mid) + rng.choice(["", "", "\\b" if not post else ""])
                        _set(self.inl, path, pre + body + post)
                        self.forms.append("substring:regex-escapes-in-body")
                    _set(tree, path, pre + name + post)
                    if kind == "rule" and rng.random() < 0.2:
                        # the same string macro written TWICE in one scalar (a name such as "\\[@any\\+@any\\*8\\]"): both places get the body
                        _set(tree, path, pre + name + post + name)
                        _set(self.inl, path, pre + body + post + body)
                        self.forms.append("substring:twice-in-one-scalar")
                    self.macros.append({"name": name, "pattern": body})
                    self.forms.append("substring")
                    return True
            if form == "value" and isinstance(parent, dict) and not in_list and isinstance(val, str) and plain(val):
                _set(tree, path, name)
                self.macros.append({"name": name, "pattern": val})
                self.forms.append("dict-value")
                return True
            if form == "param" and in_list and kind == "rule" and isinstance(val, (dict, list)) and not _has_at(val) and not isinstance(val, Opaque):
                leaves = [(p, s) for p, s in _leaf_strings(val) if plain(s)]
                if not leaves:
                    continue
                rng.shuffle(leaves)
                chosen = leaves[: rng.randint(1, min(3, len(leaves)))]
                formals = [f"arg-{i + 1}" for i in range(len(chosen))]
                if rng.random() < 0.5 and not self.resub_probe:
                    # realistic formal names that are substrings of other tokens of the body (`reg` in `&genreg-1`, `r` in `%rax`,
                    # `x` in `xor`): only a WHOLE token equal to the formal is a parameter
                    taken = {str(x) for x in _all_strings(val)}
                    pool = [n for n in FORMAL_POOL if n not in taken]
                    if len(pool) >= len(chosen):
                        formals = rng.sample(pool, len(chosen))
                        self.forms.append("param:formal-names-inside-other-tokens")
                if self.resub_probe and len(chosen) >= 2 and not self.resub_used:
                    # open finding F10 probe: the first argument's value equals the second formal's name
                    body_probe = True
                else:
                    body_probe = False
                body = copy.deepcopy(val)
                call = Opaque({name: None})
                r7 = rng.random()
                call.nested = True if r7 < 0.25 else "list" if r7 < 0.35 else False
                call.args_first = (not call.nested) and r7 > 0.85
                if call.nested:
                    self.forms.append("param:arguments-indented-under-the-call-key" + ("-as-list" if call.nested == "list" else ""))
                if call.args_first:
                    self.forms.append("param:call-key-after-its-arguments")
                if any("times" in p for p, _ in chosen):
                    self.forms.append("param:repetition-count-as-argument")
                for (p, s), f in zip(chosen, formals):
                    _set(body, p, f)
                    call[f] = s
                if body_probe:
                    # make the value of arg-1 the text "arg-2": inlined twin must carry the literal text "arg-2"
                    call[formals[0]] = formals[1]
                    v2 = copy.deepcopy(val)
                    _set(v2, chosen[0][0], formals[1])
                    _set(self.inl, path, v2)
                    self.resub_used = True
                    self.forms.append("param:arg-value-equals-later-formal")
                _set(tree, path, call)
                self.macros.append({"name": name, "args": formals, "pattern": [body]})
                self.forms.append(f"param:{len(formals)}")
                # further uses with different / equal arguments
                for _ in range(0 if (len(path) >= 2 and path[-2] in ("$not", "$and_any_order")) else rng.randint(0, 3)):
                    idx = path[-1]
                    same = rng.random() < 0.3
                    call2 = Opaque({name: None})
                    r8 = rng.random()
                    call2.nested = True if r8 < 0.25 else "list" if r8 < 0.35 else False
                    call2.args_first = (not call2.nested) and r8 > 0.85
                    inst = copy.deepcopy(body)
                    for (p, s), f in zip(chosen, formals):
                        v = call[f] if same else rng.choice([1, 2, 3, s]) if "times" in p else rng.choice(self.decoys + [s])
                        if v in formals:
                            v = s
                        call2[f] = v
                        _set(inst, p, v)
                    parent.insert(idx, call2)
                    _get(self.inl, path[:-1]).insert(idx, inst)
                    self.forms.append("param:extra-use-" + ("same" if same else "different"))
                return True
        return False


def to_plain(node):
    """Opaque -> dict for YAML dumping. A call marked `nested` is written with its arguments indented under the call key
    (`"@m": {f: v}`) instead of beside it (`"@m":` / `f: v`): both spellings bind the same arguments."""
    if isinstance(node, Opaque) and getattr(node, "nested", False):
        name = next(iter(node))
        args = {k: to_plain(v) for k, v in node.items() if k != name}
        if node.nested == "list" and args:
            return {name: [{k: v} for k, v in args.items()]}          # arguments as a sequence of one-key mappings under the call key
        return {name: args}
    if isinstance(node, Opaque) and getattr(node, "args_first", False):
        name = next(iter(node))
        out = {k: to_plain(v) for k, v in node.items() if k != name}
        out[name] = None                                               # the call key written AFTER its arguments (a mapping has no order)
        return out
    if isinstance(node, dict):
        return {k: to_plain(v) for k, v in node.items()}
    if isinstance(node, list):
        return [to_plain(x) for x in node]
    return node


def factor(rng: random.Random, pattern: list, decoys: List[str], steps: int, resub_probe=False):
    f = Factoring(rng, pattern, decoys, resub_probe)
    for _ in range(steps):
        if not f.step():
            break
    return to_plain(f.inl), to_plain(f.mac), [to_plain(m) for m in f.macros], f.forms
