"""R-dsl: a backtracking interpreter of the JASM rule DSL over instruction lists.

Written from the statements of properties C01-C07 (not from the regex
generator). `Matcher(insts, flags).windows(root)` is the set of all (i, j)
such that the rule matches instructions [i, j)."""
from __future__ import annotations

import itertools
from typing import Any, Dict, List, Optional, Tuple


class _Any:
    """The shipped @any wildcard: any mnemonic / any non-empty operand."""
    def __repr__(self):
        return "@any"


ANY = _Any()


class _Boundary(str):
    """Pseudo operand field standing for '|addr::mnemonic' of the next record (quirk model only)."""


class Unsupported(Exception):
    """The rule uses a form the model does not interpret (case is skipped)."""


# ----------------------------------------------------------------- AST

class Node:
    __slots__ = ("kind", "name", "children", "lo", "hi", "extra", "is_def")

    def __init__(self, kind, name=None, children=None, lo=1, hi=1, extra=None):
        self.kind = kind          # item icap igroup | olit ocap oreg ogroup oderef
        self.name = name
        self.children = children
        self.lo = lo
        self.hi = hi
        self.extra = extra
        self.is_def = False

    def __repr__(self):
        return f"<{self.kind} {self.name} x{self.lo},{self.hi} {self.children or ''}>"


import re as _re
HEXH_NAME = _re.compile(r"^[0-9a-fA-F]+h$")

OPS = {"$and": "and", "$or": "or", "$not": "not", "$and_any_order": "any"}
REG_FAMILIES = {"&genreg": "gen", "&indreg": "ind", "&stackreg": "stack", "&basereg": "base"}
WIDTH_SUFFIXES = {"64": "64", "32": "32", "16": "16", "8h": "8h", "8l": "8l"}

# architectural register names per family letter and width (README table)
REG_TABLE = {
    "gen": {L: {"64": f"r{L}x", "32": f"e{L}x", "16": f"{L}x", "8h": f"{L}h", "8l": f"{L}l"} for L in "abcd"},
    "ind": {L: {"64": f"r{L}i", "32": f"e{L}i", "16": f"{L}i", "8l": f"{L}il"} for L in "sd"},
    "stack": {"sp": {"64": "rsp", "32": "esp", "16": "sp", "8l": "spl"}},
    "base": {"bp": {"64": "rbp", "32": "ebp", "16": "bp", "8l": "bpl"}},
}


def _times(d: dict, name) -> Tuple[int, int]:
    t = None
    if "times" in d:
        t = d["times"]
    elif isinstance(d[name], dict) and "times" in d[name]:
        t = d[name]["times"]
    if t is None:
        return 1, 1
    if isinstance(t, bool):
        raise Unsupported("bool times")
    if isinstance(t, int):
        return t, t
    if isinstance(t, dict):
        lo, hi = t.get("min", 1), t.get("max", 1)
        if not isinstance(lo, int) or not isinstance(hi, int):
            raise Unsupported("non-int bounds")
        return lo, hi
    raise Unsupported("times of unsupported type")


def split_reg_name(name: str):
    """(family, key, width) of a register-family capture name, or None."""
    for pref, fam in REG_FAMILIES.items():
        if name.startswith(pref):
            parts = name.split(".")
            width = None
            key = name
            if len(parts) > 1 and parts[-1].lower() in WIDTH_SUFFIXES:
                width = parts[-1].lower()
                key = ".".join(parts[:-1])
            return fam, key, width
    return None


class Parser:
    def __init__(self):
        self.defined = set()

    def _cap(self, key) -> bool:
        """True when this occurrence is the defining (first) one."""
        if key in self.defined:
            return False
        self.defined.add(key)
        return True

    def top(self, pattern) -> Node:
        if not isinstance(pattern, list) or not pattern:
            raise Unsupported("pattern must be a non-empty list")
        return Node("igroup", "and", [self.inst(x) for x in pattern])

    def inst(self, x) -> Node:
        if isinstance(x, bool):
            raise Unsupported("bool item")
        if isinstance(x, (str, int)):
            s = str(x)
            if s.startswith("&"):
                n = Node("icap", s)
                n.is_def = self._cap(("i", s))
                return n
            if s == "@any":
                return Node("item", ANY, None)
            if s.startswith("$") or s.startswith("@"):
                raise Unsupported(s)
            return Node("item", s, None)
        if not isinstance(x, dict) or not x:
            raise Unsupported("item of unsupported type")
        keys = list(x.keys())
        name = keys[0]
        if set(keys[1:]) - {"times"}:
            raise Unsupported("extra keys")
        lo, hi = _times(x, name)
        body = x[name]
        if name in OPS:
            if not isinstance(body, list) or not body:
                raise Unsupported("group body")
            if name == "$not" and len(body) != 1:
                raise Unsupported("$not arity")
            return Node("igroup", OPS[name], [self.inst(c) for c in body], lo, hi)
        sname = str(name)
        if sname == "@any":
            sname = ANY
        elif sname.startswith(("$", "@", "&")) or sname == "times":
            raise Unsupported(sname)
        if isinstance(body, list):
            if not body:
                return Node("item", sname, None, lo, hi)
            return Node("item", sname, [self.op(c) for c in body], lo, hi)
        if isinstance(body, dict) and set(body.keys()) == {"times"}:
            return Node("item", sname, None, lo, hi)
        raise Unsupported("item body")

    def op(self, x) -> Node:
        if isinstance(x, bool):
            raise Unsupported("bool operand")
        if isinstance(x, (str, int)):
            s = str(x)
            reg = split_reg_name(s)
            if reg:
                fam, key, width = reg
                n = Node("oreg", s, None, extra=(fam, key, width))
                n.is_def = self._cap(("o", key))
                if not n.is_def and width is None:
                    # not judged: the real code rejects it loudly (NotImplementedError) and the statement
                    # only defines what an occurrence matches through the width its suffix selects
                    raise Unsupported("later register-family occurrence without a width suffix")
                return n
            if s.startswith("&"):
                n = Node("ocap", s)
                n.is_def = self._cap(("o", s))
                return n
            if s == "@any":
                return Node("olit", ANY)
            if s.startswith("$") or s.startswith("@") or s == "times":
                raise Unsupported(s)
            if HEXH_NAME.match(s) and s.lower() not in ("ah", "bh", "ch", "dh"):
                s = "0x" + s[:-1]          # Intel-style literal: 10h names the text 0x10 (pinned by the repository's unit test)
            return Node("olit", s)
        if not isinstance(x, dict) or not x:
            raise Unsupported("operand of unsupported type")
        keys = list(x.keys())
        name = keys[0]
        if set(keys[1:]) - {"times"}:
            raise Unsupported("extra keys")
        lo, hi = _times(x, name)
        body = x[name]
        if name in OPS:
            if not isinstance(body, list) or not body:
                raise Unsupported("group body")
            if name == "$not" and len(body) != 1:
                raise Unsupported("$not arity")
            return Node("ogroup", OPS[name], [self.op(c) for c in body], lo, hi)
        if name == "$deref":
            if not isinstance(body, dict):
                raise Unsupported("deref body")
            fields = {}
            for k in body:
                if k != "times" and k not in ("main_reg", "constant_offset", "register_multiplier", "constant_multiplier"):
                    raise Unsupported("deref field " + str(k))
            # first occurrences are counted in the order the components stand in the operand (base, index, scale, displacement),
            # whatever the key order of the mapping
            for k in ("main_reg", "register_multiplier", "constant_multiplier", "constant_offset"):
                if k in body:
                    fields[k] = self.dval(body[k], k)
            if "main_reg" not in fields:
                raise Unsupported("deref without main_reg")
            return Node("oderef", None, None, lo, hi, extra=fields)
        raise Unsupported("operand dict " + str(name))

    def dval(self, v, field=None):
        if isinstance(v, bool):
            raise Unsupported("bool deref value")
        if isinstance(v, (str, int)):
            s = str(v)
            if s == "@any":
                # the wildcard admits '+' and '*', so what it covers inside the brackets is not tied to one
                # component; no statement defines component boundaries for a wildcard: not judged by the model
                raise Unsupported("@any inside $deref")
            reg = split_reg_name(s)
            if reg and field in ("main_reg", "register_multiplier"):
                # a register-family capture as base / index register: the component is that register at the width the suffix selects
                fam, key, width = reg
                n = Node("oreg", s, None, extra=(fam, key, width))
                n.is_def = self._cap(("o", key))
                if not n.is_def and width is None:
                    raise Unsupported("later register-family occurrence without a width suffix")
                return [n]
            if s.startswith(("&", "$", "@")):
                raise Unsupported("deref value " + s)
            return [s]
        if isinstance(v, list) and len(v) == 1 and isinstance(v[0], dict) and list(v[0].keys()) == ["$or"]:
            def flat(alts):
                if not isinstance(alts, list) or not alts:
                    raise Unsupported("deref $or")
                out = []
                for a in alts:
                    if isinstance(a, dict) and list(a.keys()) == ["$or"]:
                        out += flat(a["$or"])            # alternation is associative: a nested $or adds its alternatives
                    elif isinstance(a, bool) or not isinstance(a, (str, int)) or str(a).startswith(("&", "$", "@")):
                        raise Unsupported("deref alt")
                    else:
                        out.append(str(a))
                return out
            return flat(v[0]["$or"])
        raise Unsupported("deref value form")


def parse_rule(doc: dict) -> Node:
    return Parser().top(doc.get("pattern"))


# ----------------------------------------------------------------- bracket operands

def parse_bracket(field: str):
    """Components (a, b, c, k) of a normal-form memory operand, or None."""
    if not (field.startswith("[") and field.endswith("]")):
        return None
    inner = field[1:-1]
    parts = inner.split("+")
    a = parts[0] if parts[0] != "" else None
    b = c = k = None
    for p in parts[1:]:
        if "*" in p:
            if b is not None:
                return None
            b, _, c = p.partition("*")
        elif p.startswith("%"):
            if b is not None:
                return None
            b = p
        else:
            if k is not None:
                return None
            k = p
    return a, b, c, k


def _reg_eq(want, got: Optional[str]) -> bool:
    if got is None:
        return False
    if want is ANY:
        return got != ""
    return want == got or "%" + want == got


def _const_eq(want, got: Optional[str]) -> bool:
    if got is None:
        return False
    if want is ANY:
        return got != ""
    if want == got:
        return True
    neg = want.startswith("-")
    w = want[1:] if neg else want
    return (("-" if neg else "") + "0x" + w) == got


# ----------------------------------------------------------------- matcher

Env = Tuple[Tuple[Any, Any], ...]


def env_get(env: Env, key):
    for k, v in env:
        if k == key:
            return v
    return None


def env_set(env: Env, key, val) -> Env:
    return tuple(sorted(env + ((key, val),), key=repr))


class Matcher:
    def __init__(self, insts, mn_full=False, op_full=False, quirks=frozenset()):
        self.insts = insts
        self.n = len(insts)
        self.mn_full = mn_full
        self.op_full = op_full
        self.quirks = frozenset(quirks)
        self.memo: Dict[Any, Any] = {}

    # ---- generic repetition
    @staticmethod
    def _rep(single, pos, env, lo, hi):
        res = set()
        frontier = {(pos, env)}
        if lo <= 0:
            res |= frontier
        for r in range(1, hi + 1):
            nxt = set()
            for p, e in frontier:
                nxt |= single(p, e)
            if not nxt:
                break
            if r >= lo:
                res |= nxt
            frontier = nxt
        return res

    # ---- instruction level
    def inst(self, node: Node, i: int, env: Env):
        key = (id(node), i, env)
        r = self.memo.get(key)
        if r is None:
            if node.lo == 1 and node.hi == 1:
                r = self._inst1(node, i, env)
            else:
                r = self._rep(lambda p, e: self._inst1(node, p, e), i, env, node.lo, node.hi)
            self.memo[key] = r
        return r

    def _seq(self, fn, nodes, pos, env):
        cur = {(pos, env)}
        for nd in nodes:
            nxt = set()
            for p, e in cur:
                nxt |= fn(nd, p, e)
            cur = nxt
            if not cur:
                break
        return cur

    def _any_order(self, fn, nodes, pos, env):
        res = set()
        seen = set()
        for perm in itertools.permutations(range(len(nodes))):
            res |= self._seq(fn, [nodes[x] for x in perm], pos, env)
        return res

    def _inst1(self, node: Node, i: int, env: Env):
        k = node.kind
        if k == "item":
            if i >= self.n:
                return set()
            _, mnem, ops = self.insts[i]
            ok = True if node.name is ANY else (mnem == node.name) if self.mn_full else (node.name in mnem)
            if not ok:
                return set()
            if not node.children:
                return {(i + 1, env)}
            if "any_macro_crosses_record" in self.quirks:
                # open finding F7: the shipped @any (= [^, ]{1,1000}) admits '|', so an @any operand item past the
                # last operand swallows '|addr::mnemonic' of the next record and matching continues in its operands
                ext, bounds = list(ops), []
                for nxt in range(i + 1, min(i + 4, self.n)):
                    a2, m2, o2 = self.insts[nxt]
                    bounds.append(len(ext))
                    ext.append(_Boundary(f"|{a2}::{m2}"))
                    ext.extend(o2)
                ext = tuple(ext)
                res = set()
                for p, e in self._seq(lambda nd, p, e: self.op(nd, ext, p, e), node.children, 0, env):
                    res.add((i + 1 + sum(1 for b in bounds if b < p), e))
                return res
            return {(i + 1, e) for _, e in self._seq(lambda nd, p, e: self.op(nd, ops, p, e), node.children, 0, env)}
        if k == "icap":
            if i >= self.n:
                return set()
            _, mnem, ops = self.insts[i]
            val = (mnem, ops)
            if node.is_def:
                return {(i + 1, env_set(env, ("i", node.name), val))}
            return {(i + 1, env)} if env_get(env, ("i", node.name)) == val else set()
        if k == "igroup":
            g = node.name
            if g == "and":
                return self._seq(self.inst, node.children, i, env)
            if g == "or":
                res = set()
                for c in node.children:
                    res |= self.inst(c, i, env)
                return res
            if g == "any":
                return self._any_order(self.inst, node.children, i, env)
            if g == "not":
                if i >= self.n:
                    return set()
                return set() if self.inst(node.children[0], i, env) else {(i + 1, env)}
        raise Unsupported(k)

    # ---- operand level
    def op(self, node: Node, fields, k: int, env: Env):
        if node.lo == 1 and node.hi == 1:
            return self._op1(node, fields, k, env)
        return self._rep(lambda p, e: self._op1(node, fields, p, e), k, env, node.lo, node.hi)

    def _op1(self, node: Node, fields, k: int, env: Env):
        kind = node.kind
        if kind == "olit":
            if k >= len(fields):
                return set()
            if isinstance(fields[k], _Boundary):
                ok = node.name is ANY
            elif node.name is ANY:
                ok = fields[k] != ""
            else:
                ok = (fields[k] == node.name) if self.op_full else (node.name in fields[k])
            return {(k + 1, env)} if ok else set()
        if kind in ("ocap", "oreg", "oderef") and k < len(fields) and isinstance(fields[k], _Boundary):
            return set()
        if kind == "ocap":
            if k >= len(fields) or fields[k] == "":
                return set()
            if node.is_def:
                return {(k + 1, env_set(env, ("o", node.name), fields[k]))}
            return {(k + 1, env)} if env_get(env, ("o", node.name)) == fields[k] else set()
        if kind == "oreg":
            if k >= len(fields):
                return set()
            fam, key, width = node.extra
            f = fields[k]
            if not f.startswith("%"):
                return set()
            table = REG_TABLE[fam]
            if node.is_def:
                res = set()
                for letter, by_width in table.items():
                    for w, nm in by_width.items():
                        if (width is None or w == width) and f == "%" + nm:
                            res.add((k + 1, env_set(env, ("o", key), letter)))
                return res
            letter = env_get(env, ("o", key))
            if letter is None:
                return set()
            for w, nm in table[letter].items():
                if (width is None or w == width) and f == "%" + nm:
                    return {(k + 1, env)}
            return set()
        if kind == "ogroup":
            g = node.name
            fn = lambda nd, p, e: self.op(nd, fields, p, e)  # noqa: E731
            if g == "and":
                return self._seq(fn, node.children, k, env)
            if g == "or":
                res = set()
                for c in node.children:
                    res |= self.op(c, fields, k, env)
                return res
            if g == "any":
                return self._any_order(fn, node.children, k, env)
            if g == "not":
                if k >= len(fields) or isinstance(fields[k], _Boundary):
                    return set()
                return set() if self.op(node.children[0], fields, k, env) else {(k + 1, env)}
        if kind == "oderef":
            if k >= len(fields):
                return set()
            comp = parse_bracket(fields[k])
            if comp is None:
                return set()
            a, b, c, kk = comp
            d = node.extra
            envs = {env}
            for fname, got, eq in (("main_reg", a, _reg_eq), ("register_multiplier", b, _reg_eq), ("constant_multiplier", c, _const_eq),
                                   ("constant_offset", kk, _const_eq)):
                if fname in d:
                    nxt = set()
                    for e in envs:
                        for w in d[fname]:
                            if isinstance(w, Node):
                                if got is not None:
                                    nxt |= {e2 for _, e2 in self._op1(w, [got], 0, e)}
                            elif eq(w, got):
                                nxt.add(e)
                    envs = nxt
                    if not envs:
                        return set()
                elif got is not None:
                    return set()
            return {(k + 1, e) for e in envs}
        raise Unsupported(kind)

    # ---- whole-rule queries
    def windows(self, root: Node):
        w = set()
        for i in range(self.n + 1):
            for j, _ in self.inst(root, i, ()):
                w.add((i, j))
        return w


def min_len(node: Node) -> int:
    """Least number of instructions an instruction-level node can consume."""
    if node.kind in ("item", "icap"):
        base = 1
    elif node.name == "and" or node.name == "any":
        base = sum(min_len(c) for c in node.children)
    elif node.name == "or":
        base = min(min_len(c) for c in node.children)
    else:
        base = 1
    return base * max(node.lo, 0)


def defs_in_any_order(root: Node) -> bool:
    """True when some capture definition lies inside an $and_any_order group (instruction or operand level)."""
    def has_def(node):
        if node.is_def:
            return True
        if node.kind == "oderef":
            return any(isinstance(x, Node) and x.is_def for v in node.extra.values() for x in v)
        return any(has_def(c) for c in (node.children or []))

    def walk(node):
        if node.kind in ("igroup", "ogroup") and node.name == "any" and has_def(node):
            return True
        return any(walk(c) for c in (node.children or []))
    return walk(root)


def defs_on_spine(root: Node, allow_any_order=False) -> bool:
    """True when every capture definition (first occurrence in document order) lies on the
    executed-exactly-once spine: a direct child of the top-level list (or a direct operand of
    such an item) with times (1,1), not inside $or/$not/$and_any_order/any repeated element."""
    uses = {}

    def count(node):
        if node.kind in ("icap", "ocap", "oreg"):
            key = node.name if node.kind != "oreg" else node.extra[1]
            uses[(node.kind[0], key)] = uses.get((node.kind[0], key), 0) + 1
        for c in (node.children or []):
            count(c)
        if node.kind == "oderef":
            for v in node.extra.values():
                for x in v:
                    if isinstance(x, Node):
                        count(x)
    count(root)

    def local_uses(node, acc):
        if node.kind in ("icap", "ocap", "oreg"):
            key = (node.kind[0], node.name if node.kind != "oreg" else node.extra[1])
            acc[key] = acc.get(key, 0) + 1
        for c in (node.children or []):
            local_uses(c, acc)
        if node.kind == "oderef":
            for v in node.extra.values():
                for x in v:
                    if isinstance(x, Node):
                        local_uses(x, acc)
        return acc

    def walk(node, on_spine, dead=False, in_any=False):
        dead = dead or node.hi == 0          # an element repeated zero times never executes: a name that occurs only there binds nothing
        here = on_spine and node.lo == 1 and node.hi == 1
        if node.kind in ("igroup", "ogroup") and node.name == "not" and node.lo == 1 and node.hi == 1 and not dead:
            # a name whose every occurrence lies inside this one $not lives and dies with the attempt to match its argument:
            # the argument is a spine of its own (executed once per attempt, nothing of it survives the $not). Not so under an
            # $and_any_order ancestor: there the definition is a definition inside an any-order group like any other (finding F21)
            inside = local_uses(node, {})
            if inside and all(uses.get(k) == v for k, v in inside.items()):
                if in_any and not allow_any_order:
                    return False
                return all(walk(c, True, dead, in_any) for c in node.children)
        if node.is_def and not here:
            key = node.name if node.kind != "oreg" else node.extra[1]
            if not (dead and uses.get((node.kind[0], key), 0) == 1):
                return False
        if node.kind == "igroup":
            inner = here and (node.name == "and" or (allow_any_order and node.name == "any"))     # every child of an any-order group executes exactly once
            return all(walk(c, inner, dead, in_any or node.name == "any") for c in node.children)
        if node.kind == "item":
            return all(walk(c, here, dead, in_any) for c in (node.children or []))
        if node.kind == "ogroup":
            inner = here and (node.name == "and" or (allow_any_order and node.name == "any"))
            return all(walk(c, inner, dead, in_any or node.name == "any") for c in node.children)
        if node.kind == "oderef":
            return all(walk(x, here and len(v) == 1, dead, in_any) for v in node.extra.values() for x in v if isinstance(x, Node))
        return True
    return walk(root, True)


def has_kind(root: Node, kinds) -> bool:
    if root.kind in kinds:
        return True
    return any(has_kind(c, kinds) for c in (root.children or []))
