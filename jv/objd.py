"""S-elf: objects built by the harness and disassembled by the installed objdump;
comparison of the real stream with R-line."""
from __future__ import annotations

import os
import random
import shutil
import subprocess
from typing import List, Optional

from . import elf, real, refline, stream

OBJDUMP = shutil.which("objdump")
AS = shutil.which("as")

SECTION_NAMES = [".text", ".init", ".fini", ".plt", ".plt.got", "my.sec", ".text.hot", "CODE", ".t", ".text$mn", "_ZN4core3fmt$LT$x$GT$", "sec with blank", ".text'q", ".text,hot", "a,b,c"]


def random_object(rng: random.Random, bits: Optional[int] = None, nsec: Optional[int] = None, size=(300, 3000), data_sections=True):
    bits = bits or rng.choice([64, 64, 32])
    nsec = nsec or rng.randint(1, 4)
    names = rng.sample(SECTION_NAMES, nsec)
    secs = []
    # 0xffffffff81000000: a higher-half (kernel) address needs all 16 digits, objdump prints such rows unpadded in column 0
    addr = rng.choice([0x401000, 0x1000, 0x8048000, 0x10000000] + ([0xffffffff81000000, 0xffffffff81000000] if bits == 64 else [0xfffff000]))
    for nm in names:
        n = rng.randint(*size)
        secs.append(elf.Section(nm, elf.random_code(rng, n, rng.choice(["uniform", "biased", "biased"])), addr, True))
        addr += (n + 0xFFF) & ~0xFFF
        if rng.random() < 0.2:
            addr = max(0x1000, addr - 0x300000)  # a later section may sit at a lower address
    if data_sections and rng.random() < 0.6:
        secs.append(elf.Section(".data", elf.random_code(rng, rng.randint(16, 200)), addr + 0x10000, False))
        if rng.random() < 0.15:
            # a damaged but readable sample: a NON-code section claims more bytes than the file holds (objdump warns on stderr, exits 0 and
            # prints the complete disassembly)
            secs[-1].claimed_size = len(secs[-1].data) + 0x100000
    rng.shuffle(secs)
    syms = None
    if rng.random() < 0.7:
        syms = []
        for i, s in enumerate(secs):
            if s.exec_:
                for _ in range(rng.randint(1, 4)):
                    syms.append((rng.choice(["main", "f", "g.part.0", "_start", "add", "dead", "x@plt"]) + str(rng.randint(0, 99)),
                                 i, rng.randrange(max(1, len(s.data)))))
    return elf.build(secs, bits, syms), secs, bits


def disassemble(path: str, sections: Optional[List[str]] = None, extra: Optional[List[str]] = None):
    cmd = [OBJDUMP, "-d", "-M", "att"] + (extra or [])
    for s in sections or []:
        cmd += ["-j", s]
    p = subprocess.run(cmd + [path], capture_output=True, text=True, timeout=120)
    return p.returncode, p.stdout, p.stderr


def line_shape(ri: refline.RInst) -> str:
    """mnemonic + operand-shape signature (for 'distinct line shapes seen')."""
    import re
    shp = []
    for o in ri.ops_att:
        t = re.sub(r"-?0x[0-9a-f]+|\b[0-9a-f]+\b", "N", o)
        t = re.sub(r"%[a-z0-9]+(\(\d\))?", "R", t)
        shp.append(t)
    return " ".join(ri.parsed.prefixes + [ri.parsed.mnemonic]) + " " + ",".join(shp)


def compare_stream(stream_text: str, listing_text: str):
    """Compare the real stream with R-line's reading of the listing.
    Returns (problems, rinsts, decoded). problems: list of (kind, lineno, message)."""
    rinsts, stats = refline.read_listing(listing_text)
    probs = []
    try:
        dec = stream.decode(stream_text)
    except stream.StreamError as e:
        return [("undecodable", -1, str(e))], rinsts, None
    if len(dec) != len(rinsts):
        # find first divergence by address
        n = 0
        while n < min(len(dec), len(rinsts)) and dec[n][0] == rinsts[n].addr:
            n += 1
        where = rinsts[n].raw if n < len(rinsts) else "(end of listing)"
        got = dec[n] if n < len(dec) else "(end of stream)"
        probs.append(("count", n, f"stream has {len(dec)} records, listing has {len(rinsts)} instruction lines; first divergence at line {where!r} vs record {got}"))
        return probs, rinsts, dec
    seen = set()
    raw_records = stream_text.split("|")
    for n, (d, ri) in enumerate(zip(dec, rinsts)):
        if "," in ri.parsed.mnemonic and not ri.parsed.prefixes and len(raw_records) == len(dec) + 1:
            # a hinted branch (`jne,pt`): decoding splits at its comma (C10's open finding), so the mnemonic is judged on the record's
            # text - it carries the token objdump printed, whatever else is configured
            if not raw_records[n].startswith(f"{ri.addr}::{ri.parsed.mnemonic},") and ("hint", None) not in seen:
                seen.add(("hint", None))
                probs.append(("mnemonic", n, f"record {n} is {raw_records[n]!r}: it does not carry the mnemonic {ri.parsed.mnemonic!r} of line {ri.raw!r}"))
        if d[0] != ri.addr:
            probs.append(("address", n, f"record {n} has address {d[0]}, line is {ri.raw!r}"))
            break
        if d[1] not in ri.acceptable_mnemonics():
            pr = ri.prefix_as_mnemonic()
            key = "prefix_token_read_as_mnemonic" if pr is not None and d[1] == pr[0] else None
            sig = (key, None if key else line_shape(ri))
            if sig in seen:
                continue
            seen.add(sig)
            probs.append(("mnemonic", n, f"record {n} has mnemonic {d[1]!r} (operands {list(d[2])}), line is {ri.raw!r}", key))
            if len(probs) >= 40:
                break
    return probs, rinsts, dec


def real_stream(ws: real.Workspace, input_path: str, binary=False, rule_text="pattern:\n  - zzzzzz\n", macros=None):
    rp = ws.write("_stream_rule.yaml", rule_text)
    return real.match(rp, input_path, binary=binary, ret="stream", macros=macros)


FIXTURE_DIR = os.path.join(real.JASM_REPO, "tests", "assembly")


def fixtures():
    out = []
    if os.path.isdir(FIXTURE_DIR):
        for f in sorted(os.listdir(FIXTURE_DIR)):
            p = os.path.join(FIXTURE_DIR, f)
            if f.endswith(".s") and os.path.getsize(p) > 0 and os.path.getsize(p) < 3_000_000:
                out.append(p)
    return out
