"""C01 - instruction-sequence patterns match exactly the listings that contain them."""
from jv import drive, rulegen as RG

LEVEL = "exploration"
RULE = ("S-syn listings (3-48 instructions, near-miss vocabularies) x rules that are plain lists of items with 0-3 "
        "operand names derived from a window of the listing (whole field / substring / one-character perturbation), "
        "then one-step mutants of rule or listing; every rule runs under all 4 full-match flag settings through "
        "MasterOfPuppets (all-matches, full text) and is compared with the R-dsl interpreter on found / leftmost "
        "start / hit windows. Non-trivial = R-dsl finds the rule, or the case is one mutation away from a found case; "
        "distinct = distinct (rule text, instruction list).")
FLOOR = {"quick": 400, "thorough": 5000}
ANCHOR_HINTS = ["mnemonic_and_operand", "node_branch_root", "global_definitions", "consumer", "yaml2regex"]
REQUIRED_EVENTS = ["hits_located"]


def feat(rng):
    return RG.Feat(operands=0.75, odd_names=0.06, max_spine=rng.choice([1, 2, 3, 4]))


HREGS = ["ah", "bh", "ch", "dh"]


def hexh_stratum(ctx, d, n):
    """Operand names that look like '<hex>h' but are the 8-bit registers ah/bh/ch/dh (literal, metacharacter-free names)."""
    import random
    from jv import listing as L
    rng = ctx.rng
    for _ in range(n):
        insts = []
        addr = 0x401000
        for _ in range(rng.randint(3, 10)):
            m = rng.choice(["mov", "movb", "add", "xor", "cmp"])
            ops = [rng.choice(["%ah", "%bh", "%ch", "%dh", "%al", "%bl", "$0xa", "$0xb", "$0xc", "%rax", "$0x0a", "$0x10", "$0x1", "$0x100"]) for _ in range(2)]
            insts.append(L.SInst(addr, m, ops, None, None, 2))
            addr += 2
        from jv import dsl
        prep = dsl.Prepared(d.ws, insts, rng)
        ctx.ran()
        if not prep.verify(d.ws):
            ctx.inconc("parser disagreement on synthetic listing")
            continue
        d.prep, d.style = prep, "hexh"
        k = rng.randrange(len(insts))
        if rng.random() < 0.5:
            name = rng.choice(HREGS)
            pos = rng.randrange(2)
            ops = [name] if pos == 0 else [rng.choice(["%", "a", "0x"]), name]
        else:
            # Intel-style hex literal names: 'ah' -> register, but '0ah' / '10h' name the immediates 0x0a / 0x10
            name = rng.choice(["0ah", "0bh", "0ch", "1h", "10h"])
            ops = rng.choice([[name], [name, "%"], ["%", name], [name, name]])
        d.run_pattern([{insts[k].mnem: ops}], "base", True)


def classify(doc, prep, o):
    """Open finding F13: operand names of the form <hex>h are rewritten to 0x<hex> (no field window)."""
    import re

    def names(node):
        if isinstance(node, str):
            yield node
        elif isinstance(node, list):
            for x in node:
                yield from names(x)
        elif isinstance(node, dict):
            for v in node.values():
                yield from names(v)
    if any(re.fullmatch(r"[0-9a-fA-F]+h", n) for n in names(doc.get("pattern"))):
        return "hexh_operand_name_rewritten"
    return None


def listing_vs_stream(d, prep):
    """The stream JASM built differs from the instruction list of the synthetic listing (never observed on the pinned tree).
    Judge it at the level of this property: a one-item rule made from the first differing instruction must be reported at
    exactly the addresses where the LISTING contains it."""
    from jv import real as R, stream as S
    ctx = d.ctx
    try:
        dec = S.decode(prep.stream) if prep.stream is not None else []
    except S.StreamError:
        dec = []
    n = next((i for i, (a, b) in enumerate(zip(dec, prep.expect)) if a != b), min(len(dec), len(prep.expect)))
    if n >= len(prep.expect):
        return
    addr, mnem, ops = prep.expect[n]
    names = [o for o in ops if RG.clean(o)]
    item = {mnem: names} if names and len(names) == len(ops) else mnem
    doc = {"config": {"mnemonics-full-match": True, "operands-full-match": True}, "pattern": [item]}
    text = R.dump_rule(doc)
    want = [a for a, m, o in prep.expect if m == mnem and (item == mnem or list(o[:len(names)]) == names)]
    r = R.match(d.ws.write("pd.yaml", text), prep.path, ret="list", search="all", only_addr=True)
    ctx.ran()
    if r[0] != "ok" or list(r[1]) != want:
        ctx.disagreement({"rule": text, "listing": prep.text, "sinsts": [[s.addr, s.mnem, s.ops, s.annotation, s.comment, s.nbytes] for s in prep.sinsts],
                          "desc": "listing-vs-stream"},
                         f"the listing contains {item} at {want[:6]} but all-matches reports {str(r[1])[:120]} ({prep.why})")


def run_shard(ctx):
    d = drive.Driver(ctx, feat, flags="all4", styles=("mixed", "runs", "dups", "regs", "multisec"), classify=classify)
    d.on_parser_disagreement = listing_vs_stream
    d.loop(2000, 250000)
    hexh_stratum(ctx, d, ctx.share(96, 8000))


def replay(ctx, case):
    drive.replay_dsl(ctx, case, classify=classify)
