"""C01 - instruction-sequence patterns match exactly the listings that contain them."""
from jv import drive, rulegen as RG

LEVEL = "exploration"
RULE = ("S-syn listings (3-48 instructions, near-miss vocabularies) x rules that are plain lists of items with 0-3 "
        "operand names derived from a window of the listing (whole field / substring / one-character perturbation), "
        "then one-step mutants of rule or listing; every rule runs under all 4 full-match flag settings through "
        "MasterOfPuppets (all-matches, full text) and is compared with the R-dsl interpreter on found / leftmost "
        "start / hit windows. Non-trivial = R-dsl finds the rule, or the case is one mutation away from a found case; "
        "distinct = distinct (rule text, instruction list).")
FLOOR = {"quick": 400, "thorough": 5000}
ANCHOR_HINTS = ["mnemonic_and_operand", "node_branch_root", "global_definitions", "consumer", "yaml2regex"]
REQUIRED_EVENTS = ["hits_located"]


def feat(rng):
    return RG.Feat(operands=0.75, max_spine=rng.choice([1, 2, 3, 4]))


def run_shard(ctx):
    d = drive.Driver(ctx, feat, flags="all4", styles=("mixed", "runs", "dups", "regs"))
    d.loop(1500, 50000)


def replay(ctx, case):
    drive.replay_dsl(ctx, case)
