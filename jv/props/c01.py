"""C01 - instruction-sequence patterns match exactly the listings that contain them."""
from jv import drive, real, rulegen as RG

LEVEL = "exploration"
RULE = ("S-syn listings (3-48 instructions, near-miss vocabularies) x rules that are plain lists of items with 0-3 "
        "operand names derived from a window of the listing (whole field / substring / one-character perturbation), "
        "then one-step mutants of rule or listing; every rule runs under all 4 full-match flag settings through "
        "MasterOfPuppets (all-matches, full text) and is compared with the R-dsl interpreter on found / leftmost "
        "start / hit windows. Non-trivial = R-dsl finds the rule, or the case is one mutation away from a found case; "
        "distinct = distinct (rule text, instruction list). Plus an exhaustive relation grid, identical at every seed: mnemonic / operand-1 / operand-2 "
        "names in every relation (equal, prefix, suffix, infix, extension, unrelated, empty, omitted) to the instructions of a fixed near-miss listing x 4 "
        "flag settings, expected addresses computed by the plain definition. "
        "Riders: a decoy rule with the opposite flags loaded between building and running a matcher; fixed objdump lines whose operands hold commas behind a segment override or `*`.")
FLOOR = {"quick": 400, "thorough": 5000}
ANCHOR_HINTS = ["mnemonic_and_operand", "node_branch_root", "global_definitions", "consumer", "yaml2regex"]
REQUIRED_EVENTS = ["hits_located", "relation_grid_cells", "token_rules_on_decorated_operands"]


def feat(rng):
    return RG.Feat(operands=0.75, odd_names=0.06, max_spine=rng.choice([1, 2, 3, 4]))


HREGS = ["ah", "bh", "ch", "dh"]


def hexh_stratum(ctx, d, n):
    """Operand names that look like '<hex>h' but are the 8-bit registers ah/bh/ch/dh (literal, metacharacter-free names)."""
    import random
    from jv import listing as L
    rng = ctx.rng
    for _ in range(n):
        insts = []
        addr = 0x401000
        for _ in range(rng.randint(3, 10)):
            m = rng.choice(["mov", "movb", "add", "xor", "cmp"])
            ops = [rng.choice(["%ah", "%bh", "%ch", "%dh", "%al", "%bl", "$0xa", "$0xb", "$0xc", "%rax", "$0x0a", "$0x10", "$0x1", "$0x100"]) for _ in range(2)]
            insts.append(L.SInst(addr, m, ops, None, None, 2))
            addr += 2
        from jv import dsl
        prep = dsl.Prepared(d.ws, insts, rng)
        ctx.ran()
        if not prep.verify(d.ws):
            ctx.inconc("parser disagreement on synthetic listing")
            continue
        d.prep, d.style = prep, "hexh"
        k = rng.randrange(len(insts))
        if rng.random() < 0.5:
            name = rng.choice(HREGS)
            pos = rng.randrange(2)
            ops = [name] if pos == 0 else [rng.choice(["%", "a", "0x"]), name]
        else:
            # Intel-style hex literal names: 'ah' -> register, but '0ah' / '10h' name the immediates 0x0a / 0x10
            # ... spelled with a lower-case h; "10H" is a name like any other (names are case-sensitive) and occurs in no operand here
            name = rng.choice(["0ah", "0bh", "0ch", "1h", "10h", "10H", "0AH", "1H", "0aH", "100H"])
            ops = rng.choice([[name], [name, "%"], ["%", name], [name, name]])
        d.run_pattern([{insts[k].mnem: ops}], "base", True)


def classify(doc, prep, o):
    """Open finding F13: operand names of the form <hex>h are rewritten to 0x<hex> (no field window)."""
    import re

    def names(node):
        if isinstance(node, str):
            yield node
        elif isinstance(node, list):
            for x in node:
                yield from names(x)
        elif isinstance(node, dict):
            for v in node.values():
                yield from names(v)
    if any(re.fullmatch(r"[0-9a-fA-F]+h", n) for n in names(doc.get("pattern"))):
        return "hexh_operand_name_rewritten"
    return None


def listing_vs_stream(d, prep):
    """The stream JASM built differs from the instruction list of the synthetic listing (never observed on the pinned tree).
    Judge it at the level of this property: a one-item rule made from the first differing instruction must be reported at
    exactly the addresses where the LISTING contains it."""
    from jv import real as R, stream as S
    ctx = d.ctx
    try:
        dec = S.decode(prep.stream) if prep.stream is not None else []
    except S.StreamError:
        dec = []
    n = next((i for i, (a, b) in enumerate(zip(dec, prep.expect)) if a != b), min(len(dec), len(prep.expect)))
    if n >= len(prep.expect):
        return
    addr, mnem, ops = prep.expect[n]
    names = [o for o in ops if RG.clean(o)]
    item = {mnem: names} if names and len(names) == len(ops) else mnem
    doc = {"config": {"mnemonics-full-match": True, "operands-full-match": True}, "pattern": [item]}
    text = R.dump_rule(doc)
    want = [a for a, m, o in prep.expect if m == mnem and (item == mnem or list(o[:len(names)]) == names)]
    r = R.match(d.ws.write("pd.yaml", text), prep.path, ret="list", search="all", only_addr=True)
    ctx.ran()
    if r[0] != "ok" or list(r[1]) != want:
        ctx.disagreement({"rule": text, "listing": prep.text, "sinsts": [[s.addr, s.mnem, s.ops, s.annotation, s.comment, s.nbytes] for s in prep.sinsts],
                          "desc": "listing-vs-stream"},
                         f"the listing contains {item} at {want[:6]} but all-matches reports {str(r[1])[:120]} ({prep.why})")


GRID_LISTING = [("nop", []), ("addl", ["$0x10", "%r10d"]), ("addq", ["$0x100", "%r10"]), ("add", ["$0x1", "%r1"]), ("addl", ["$0x10"]), ("ret", []),
                ("faddl", ["0x10(%r10)"]), ("addl", ["%r10d", "$0x10"]), ("subl", ["$0x10", "%r10d"]), ("addl", ["$0x10", "%r10d", "%r11d"]), ("retq", [])]
GRID_MN = ["addl", "add", "ddl", "dd", "addlq", "sub", "a", "ret", "retq", "nop"]
GRID_O1 = [None, "0x10", "x1", "0x1", "0x100", "0x2", "%r10d", "0", ""]
GRID_O2 = [None, "%r10d", "%r10", "r10", "%r10dx", "%r11d", "0x10", ""]


def relation_grid(ctx, ws):
    """Exhaustive grid, identical at every seed: every combination of a mnemonic name, a first and a second operand name taken from
    {equal, prefix, suffix, infix, proper extension, unrelated, empty, omitted} relative to the instructions of one fixed listing with
    near-miss neighbours, under all four full-match settings. The expected address list is computed by the plain definition
    ('occurs in' / 'equals', operand k against operand k) over the instruction list."""
    from jv import listing as L, refline
    insts, addr = [], 0x401000
    for m, ops in GRID_LISTING:
        insts.append(L.SInst(addr, m, list(ops), None, None, 4))
        addr += 4
    fields = [si.fields() for si in insts]
    lp = ws.write("relgrid.s", L.render(insts, ctx.rng, labels=False))
    cells = [(mn, o1, o2, fm, fo) for mn in GRID_MN for o1 in GRID_O1 for o2 in GRID_O2 for fm in (False, True) for fo in (False, True)
             if not (o1 is None and o2 is not None)]
    for i, (mn, o1, o2, fm, fo) in enumerate(cells):
        if i % ctx.nshards != ctx.shard:
            continue
        names = [x for x in (o1, o2) if x is not None]
        item = {mn: names} if names else mn
        rule = real.dump_rule({"config": {"mnemonics-full-match": fm, "operands-full-match": fo}, "pattern": [item]})
        want = []
        for a, m, ops in fields:
            ok = (m == mn) if fm else (mn in m)
            for k, nm in enumerate(names):
                ok = ok and k < len(ops) and ((ops[k] == nm) if fo else (nm in ops[k]))
            if ok:
                want.append(a)
        r = real.match(ws.write("relgrid.yaml", rule), lp, ret="list", search="all", only_addr=True)
        ctx.ran()
        ctx.event("relation_grid_cells")
        ctx.case(("relgrid", mn, o1, o2, fm, fo), True, stratum="relation grid", outcome="found" if (r[0] == "ok" and r[1]) else "exc" if r[0] != "ok" else "not found")
        if r[0] != "ok" or list(r[1]) != want:
            ctx.disagreement({"relgrid": True, "rule": rule, "want": want},
                             f"relation grid: item {item} with mnemonics-full-match={fm}, operands-full-match={fo}: expected {want}, got {str(r[1:2])[:160]}")


def replay_relgrid(ctx, case):
    from jv import listing as L
    ws = real.Workspace()
    insts, addr = [], 0x401000
    for m, ops in GRID_LISTING:
        insts.append(L.SInst(addr, m, list(ops), None, None, 4))
        addr += 4
    import random
    lp = ws.write("relgrid.s", L.render(insts, random.Random(0), labels=False))
    r = real.match(ws.write("relgrid.yaml", case["rule"]), lp, ret="list", search="all", only_addr=True)
    ctx.ran()
    if r[0] != "ok" or list(r[1]) != case["want"]:
        ctx.disagreement(case, f"relation grid cell: expected {case['want']}, got {str(r[1:2])[:160]}")


SEGMENT_LINES = ("mov %fs:(%rax,%rbx,1),%ecx", "mov %gs:0x10(%rdx,%rsi,4),%rax", "mov %rcx,%fs:-0x8(%rbp,%rdi,8)", "call *%fs:0x8(%rax,%rcx,8)",
                 "jmp *%gs:0x0(,%rax,8)", "call *%fs:0x10(%rax)", "add %gs:0x20(,%r9,2),%r10", "lea %fs:0x18(%r12,%r13,1),%r14")


def token_stratum(ctx, ws, n):
    """Instructions assembled by `as` and printed by objdump, including AVX-512 operands with glued decorations ({1to16}, {%k1}{z},
    {rn-sae}) and segment overrides: for a line with operands o_1..o_n, a rule naming one token of each o_k at position k (registers,
    hexadecimal numbers, decoration words as objdump prints them) must report that line's address. Containment only, no model."""
    import re
    from jv import asmgen, refline
    rng = ctx.rng
    for _ in range(n):
        lines = [asmgen.template(rng, 64) for _ in range(40)] + [asmgen.decorated(rng) for _ in range(25)] + list(SEGMENT_LINES)
        rng.shuffle(lines)
        r = asmgen.assemble(ws, lines, 64)
        if r is None:
            ctx.inconc("as refused a template batch")
            continue
        lp = ws.write("tok.s", r[1])
        rinsts, _ = refline.read_listing(r[1])
        cands = [ri for ri in rinsts if not ri.parsed.prefixes and ri.parsed.mnemonic.isalnum() and ri.ops_att]
        rng.shuffle(cands)
        # operands that hold commas of their own (segment override with base/index, indirect through a segment) are judged in every batch
        inner = [ri for ri in cands if any(":" in o and "," in o for o in ri.ops_att)]
        ctx.event("token_rules_on_segment_indexed_operands", len(inner))
        for ri in inner + [c for c in cands if c not in inner][:12]:
            names = []
            for o in ri.ops_att:
                toks = [t for t in re.findall(r"%?[A-Za-z0-9_]+(?:-[a-z]+)?", o.lstrip("$*")) if RG.clean(t) and len(t) >= 2]
                if not toks:
                    names = None
                    break
                names.append(rng.choice(toks))
            if not names:
                continue
            deco = any("{" in o for o in ri.ops_att)
            rule = real.dump_rule({"config": {"mnemonics-full-match": True}, "pattern": [{ri.parsed.mnemonic: names}]})
            res = real.match(ws.write("tok.yaml", rule), lp, ret="list", search="all", only_addr=True)
            ctx.ran()
            ctx.event("token_rules_judged")
            if deco:
                ctx.event("token_rules_on_decorated_operands")
            ctx.case(("tok", ri.parsed.mnemonic, tuple(names), ri.raw), True, stratum="objdump tokens" + ("/decorated" if deco else ""),
                     outcome="found" if res[0] == "ok" and ri.addr in res[1] else "missed")
            if res[0] != "ok" or ri.addr not in res[1]:
                ctx.disagreement({"token": True, "rule": rule, "listing": ri.raw + "\n", "addr": ri.addr},
                                 f"line {ri.raw!r}: each of {names} is a token of the operand at its position, yet all-matches reports {str(res[1:2])[:120]}")


def replay_token(ctx, case):
    ws = real.Workspace()
    res = real.match(ws.write("tok.yaml", case["rule"]), ws.write("tok.s", case["listing"]), ret="list", search="all", only_addr=True)
    ctx.ran()
    if res[0] != "ok" or case["addr"] not in res[1]:
        ctx.disagreement(case, f"token rule not found on its own line: {str(res[1:2])[:120]}")


def run_shard(ctx):
    from jv import real as _real
    relation_grid(ctx, _real.Workspace())
    token_stratum(ctx, _real.Workspace(), ctx.share(16, 1500))
    d = drive.Driver(ctx, feat, flags="all4", styles=("mixed", "runs", "dups", "regs", "multisec", "kernel"), classify=classify)
    d.on_parser_disagreement = listing_vs_stream
    d.loop(2000, 250000)
    hexh_stratum(ctx, d, ctx.share(96, 8000))


def replay(ctx, case):
    if case.get("relgrid"):
        return replay_relgrid(ctx, case)
    if case.get("token"):
        return replay_token(ctx, case)
    drive.replay_dsl(ctx, case, classify=classify)
