"""C02 - repetition bounds (`times`) are honoured exactly."""
import copy

import yaml

from jv import drive, real, rulegen as RG

LEVEL = "exploration"
RULE = ("S-syn listings with planted runs of identical instructions and repeated blocks x rules whose items/groups carry "
        "`times` (integer, {min,max}, min only, max only; body spelling for operand-less items, sibling spelling for items "
        "with operands and for $and/$or/$not/$and_any_order groups, also $or groups with times inside operand lists), bounds chosen at the edges of the planted run "
        "(r-1, r, r+1); deterministic group probes (r alternating repetitions of a two-instruction group of every kind, framed by "
        "markers, bounds around r); an exhaustive bounds grid, identical at every seed (8 element kinds x run length 0..4 x every integer / {min,max} / "
        "min-only / max-only form with bounds <= 5, ground truth by construction: found iff min <= r <= max, the hit covering the whole run); a nested-times "
        "stratum (a repeated group around one repeated element, any-order groups with times whose members have variable length), judged by R-dsl. Two oracles per execution: (1) R-dsl differential on found / leftmost start / hit windows; "
        "(2) model-free twin: the same rule with every top-level repeated element written out n times (or as an $or of the "
        "written-out lengths when max-min<=3), executed on the real code and compared on verdict and first address. "
        "Non-trivial = model finds the rule or the case is one mutation from a found case; distinct = (rule, listing). "
        "The bounds grid also hands counts and bounds over as macro arguments.")
FLOOR = {"quick": 300, "thorough": 4000}
ANCHOR_HINTS = ["time_type_builder", "pattern_node_builder", "node_branch_root", "mnemonic_and_operand"]
REQUIRED_EVENTS = ["hits_located", "twin_compared", "bounds_grid_cells", "nested_times_cells"]
QUIRKS = []


def feat(rng):
    return RG.Feat(operands=0.5, times_item=0.6, groups=0.3, nots=0.08, group_times=0.7, ogroups=0.25, deref=0.5,
                   max_depth=1, max_spine=rng.choice([1, 2, 3]))


def expand_twin(pattern):
    """Write out every top-level repeated element. Returns list of alternative patterns (any-found semantics) or None."""
    alts = [[]]
    changed = False
    for el in pattern:
        t = None
        plain = el
        if isinstance(el, dict):
            keys = list(el.keys())
            name = keys[0]
            if "times" in el:
                t = el["times"]
                plain = {name: el[name]}
            elif isinstance(el[name], dict) and set(el[name].keys()) == {"times"}:
                t = el[name]["times"]
                plain = name
        if t is None:
            alts = [a + [el] for a in alts]
            continue
        if isinstance(t, int):
            lo = hi = t
        else:
            lo, hi = t.get("min", 1), t.get("max", 1)
        if lo > hi or hi - lo > 3 or hi > 8 or lo < 0:
            return None
        changed = True
        new = []
        for r in range(lo, hi + 1):
            for a in alts:
                new.append(a + [copy.deepcopy(plain) for _ in range(r)])
        alts = new
        if len(alts) > 24:
            return None
    alts = [a for a in alts if a]
    return alts if changed and alts else None


def first_addr(hits):
    return hits[0].split("::")[0] if hits else None


def twin(driver, doc, text, prep, o):
    ctx = driver.ctx
    if o.status != "ok":
        return
    alts = expand_twin(doc["pattern"])
    if alts is None:
        return
    best = None
    found = False
    for a in alts:
        d2 = dict(doc)
        d2["pattern"] = a
        rp = driver.ws.write("twin.yaml", real.dump_rule(d2))
        r = real.match(rp, prep.path, ret="list", search="first", only_addr=True)
        ctx.ran()
        if r[0] != "ok":
            ctx.inconc("twin raised " + r[1])
            return
        if r[1]:
            found = True
            v = int(r[1][0], 16) if r[1][0] else -1
            best = v if best is None else min(best, v)
    ctx.event("twin_compared")
    fa = first_addr(o.hits)
    real_first = (int(fa, 16) if fa else -1) if o.hits else None
    if found != o.found_real or (found and best != real_first):
        ctx.disagreement({"rule": text, "listing": prep.text, "sinsts": [[s.addr, s.mnem, s.ops, s.annotation, s.comment, s.nbytes] for s in prep.sinsts],
                          "twin_alternatives": [real.dump_rule({"pattern": a}) for a in alts][:6]},
                         f"times rule: found={o.found_real} first={real_first}; written-out twin: found={found} first={best} | regex={o.regex}",
                         classify(doc, prep, o))


def classify(doc, prep, o):
    return None


def group_probe_stratum(ctx, d, n):
    """Deterministic probes of `times` on every group kind: a listing with r repetitions of a two-instruction group (for
    $and_any_order the repetitions alternate their order, for $or the alternatives alternate) framed by marker instructions,
    and the bounds r-1, r, r+1 and ranges around r - so the edge behaviour does not depend on what the random generator hits."""
    from jv import dsl, listing as L
    rng = ctx.rng
    for _ in range(n):
        a, b, x, y = rng.sample(["push", "pop", "inc", "dec", "nop", "leave", "cltq", "hlt", "ret", "int3"], 4)
        kind = rng.choice(["$and_any_order", "$and_any_order", "$and", "$or", "$not"])
        r = rng.randint(1, 4)
        insts, addr = [], 0x401000

        def put(m):
            nonlocal addr
            insts.append(L.SInst(addr, m, [], None, None, 1))
            addr += 1
        put(x)
        for k in range(r):
            if kind == "$and_any_order":
                pair = [a, b] if (k % 2 == 0) != (rng.random() < 0.2) else [b, a]
                for m in pair:
                    put(m)
            elif kind == "$and":
                put(a), put(b)
            elif kind == "$or":
                put(a if k % 2 == 0 else b)
            else:
                put(a if k % 2 == 0 else b)          # $not [y]: anything but y
        put(y)
        put(x)
        group = {"$and_any_order": [a, b]} if kind == "$and_any_order" else {"$and": [a, b]} if kind == "$and" else \
            {"$or": [a, b]} if kind == "$or" else {"$not": [y]}
        prep = dsl.Prepared(d.ws, insts, rng)
        ctx.ran()
        if not prep.verify(d.ws):
            ctx.inconc("parser disagreement on synthetic listing")
            continue
        d.prep, d.style = prep, f"group-probe/{kind[1:]}"
        for t in (r, r - 1, r + 1, {"min": max(0, r - 1), "max": r}, {"min": r, "max": r + 1}, {"min": r + 1, "max": r + 2}, {"min": 0, "max": r}):
            if isinstance(t, int) and t < 0:
                continue
            g = dict(group)
            g["times"] = t
            d.run_pattern([x, g, y], "base", True)
        # the same repeated element used at two places of one rule (one YAML node, referred to by alias the second time)
        t = rng.choice([r, {"min": r, "max": r + 1}, {"min": max(1, r - 1), "max": r}])
        g = dict(group)
        g["times"] = t
        dbl = insts[:-1] + [L.SInst(0, s_.mnem, [], None, None, 1) for s_ in insts[:-1]] + [L.SInst(0, x, [], None, None, 1)]
        RG._readdress(dbl)
        prep2 = dsl.Prepared(d.ws, dbl, rng)
        ctx.ran()
        if prep2.verify(d.ws):
            d.prep, d.style = prep2, f"group-probe-shared/{kind[1:]}"
            saved, d.alias_twin = d.alias_twin, 1.0
            d.run_pattern([x, g, y, x, g, y], "base", True)
            d.alias_twin = saved
        ctx.event("group_probes")


GRID_KINDS = ["item", "item-operands", "$and", "$or", "$not", "$and_any_order", "deref-operand", "or-operand", "or1-operand", "and1-operand"]


def bounds_grid_stratum(ctx, ws):
    """Exhaustive grid, identical at every seed: element kind x run length r (0..4) x every bound form with 0 <= min <= max <= 5
    (integer n, {min,max}, {min} only, {max} only). The listing is `x, E^r, y` (for operand kinds: one instruction whose operand list
    holds E r times), the rule `x, E{bounds}, y`; by construction it is found iff min <= r <= max, and the hit then starts at x and
    covers the whole run. No model is involved."""
    from jv import listing as L
    jobs = []
    for kind in GRID_KINDS:
        for r in range(0, 5):
            for lo in range(0, 5):
                for hi in range(max(lo, 1), 6):
                    jobs.append((kind, r, lo, hi, "range"))
            for n in range(0, 6):
                jobs.append((kind, r, n, n, "int"))
            for lo in range(0, 5):
                jobs.append((kind, r, lo, 1, "min-only"))          # max defaults to 1
            for hi in range(1, 6):
                jobs.append((kind, r, 1, hi, "max-only"))          # min defaults to 1
    # bounds beyond any internal window length (the name windows of the generated regex are {0,1000}): a count is a count
    for r in (999, 1000, 1001, 1200, 2500):
        for (lo, hi, form) in ((r, r, "int"), (r, r, "range"), (0, 5000, "range"), (r + 1, r + 5, "range"), (max(0, r - 3), r - 1, "range"), (1001, 3000, "range")):
            jobs.append(("item", r, lo, hi, form))
        jobs.append(("$and", r // 2, r // 2, r // 2, "int"))
    # "N or more": the DSL has no open-ended form, so rules use a huge max (a million and beyond); a bound is a number, however many digits
    for kind in ("item", "item-operands", "$and", "$or", "$not"):
        for r in range(0, 5):
            for lo, hi in ((0, 1000000), (1, 1000000), (2, 10000000), (3, 999999), (1, 1048576), (2, 123456789)):
                jobs.append((kind, r, lo, hi, "range"))
    # the same counts and bounds handed to the element as macro ARGUMENTS (`times: cnt` in the macro body, `cnt: 3` at the call)
    for kind in GRID_KINDS:
        if kind in ("deref-operand", "or-operand", "or1-operand", "and1-operand"):
            continue
        for r in range(0, 5):
            for n in range(0, 6):
                jobs.append((kind, r, n, n, "int-macro"))
            for lo, hi in ((0, 1), (0, 3), (1, 2), (2, 2), (2, 4), (3, 5), (4, 5)):
                jobs.append((kind, r, lo, hi, "range-macro"))
    for i, (kind, r, lo, hi, form) in enumerate(jobs):
        if i % ctx.nshards != ctx.shard:
            continue
        by_macro = form.endswith("-macro")
        form = form[:-6] if by_macro else form
        if form == "min-only" and lo > 1:
            continue                                               # {min: 3} alone means min 3, max 1: an inverted pair, C17's subject
        t = hi if form == "int" else {"min": lo, "max": hi} if form == "range" else {"min": lo} if form == "min-only" else {"max": hi}
        insts, addr = [], 0x401000

        def put(m, ops=()):
            nonlocal addr
            insts.append(L.SInst(addr, m, list(ops), None, None, 3))
            addr += 3
        operand_kind = kind in ("deref-operand", "or-operand", "or1-operand", "and1-operand")
        put("hlt")
        if operand_kind:
            if r == 0:
                put("lea", ["%rdx"])
            elif kind == "deref-operand":
                put("vfoo", ["0x8(%rsi)"] * r + ["%rdx"])
            elif kind in ("or1-operand", "and1-operand"):
                put("vfoo", ["%rax"] * r + ["%rdx"])
            else:
                put("vfoo", ["%rax" if k % 2 == 0 else "%rbx" for k in range(r)] + ["%rdx"])
        else:
            for k in range(r):
                if kind == "item":
                    put("nop")
                elif kind == "item-operands":
                    put("inc", ["%rax"])
                elif kind == "$and":
                    put("push", ["%rax"]), put("pop", ["%rax"])
                elif kind == "$or":
                    put("push" if k % 2 == 0 else "pop", ["%rax"])
                elif kind == "$not":
                    put("inc" if k % 2 == 0 else "dec", ["%rcx"])
                else:
                    (put("push", ["%rax"]), put("pop", ["%rax"])) if k % 2 == 0 else (put("pop", ["%rax"]), put("push", ["%rax"]))
        put("cli")
        put("ret")
        if operand_kind:
            E = {"$deref": {"main_reg": "rsi", "constant_offset": "0x8"}, "times": t} if kind == "deref-operand" else {"$or": ["%rax", "%rbx"], "times": t}
            if kind in ("or1-operand", "and1-operand"):
                E = {"$or" if kind == "or1-operand" else "$and": ["%rax"], "times": t}          # an operator around ONE operand (an optional operand: times {min: 0, max: 1})
            mn = "lea" if r == 0 else "vfoo"
            pattern = ["hlt", {mn: [E, "%rdx"]}, "cli"]
            covered = 3
        else:
            E = {"nop": {"times": t}} if kind == "item" else {"inc": ["%rax"], "times": t} if kind == "item-operands" else \
                {"$and": ["push", "pop"], "times": t} if kind == "$and" else {"$or": ["push", "pop"], "times": t} if kind == "$or" else \
                {"$not": ["cli"], "times": t} if kind == "$not" else {"$and_any_order": ["push", "pop"], "times": t}
            pattern = ["hlt", E, "cli"]
            covered = 2 + r * (2 if kind in ("$and", "$and_any_order") else 1)
        macros = None
        if by_macro:
            formal_t = "cnt" if form == "int" else {"min": "lo", "max": "hi"}
            body = {"nop": {"times": formal_t}} if kind == "item" else {**{k: v for k, v in E.items() if k != "times"}, "times": formal_t}
            macros = [{"name": "@rep", "args": ["cnt"] if form == "int" else ["lo", "hi"], "pattern": [body]}]
            pattern = ["hlt", {"@rep": None, **({"cnt": hi} if form == "int" else {"lo": lo, "hi": hi})}, "cli"]
            ctx.event("bounds_grid_cells_with_bounds_as_macro_arguments")
        text = L.render(insts, ctx.rng, labels=False)
        lp = ws.write("grid.s", text)
        rule = real.dump_rule({"config": {"mnemonics-full-match": True}, **({"macros": macros} if macros else {}), "pattern": pattern})
        if i % 6 == 5:
            # the same document in YAML flow style with nothing after the colons of its keys (`{nop:{times:{min: 1, max: 3}}}`): used when the
            # YAML reader the project names (PyYAML's SafeLoader) reads it back as the same document
            import yaml as _yaml
            doc_ = _yaml.safe_load(rule)
            compact = _yaml.safe_dump(doc_, default_flow_style=True, width=10000, sort_keys=False).replace(": {", ":{").replace(": [", ":[")
            try:
                same = _yaml.safe_load(compact) == doc_
            except _yaml.YAMLError:
                same = False
            if same:
                rule = compact
                ctx.event("bounds_grid_cells_in_compact_flow_style")
        res = real.match(ws.write("grid.yaml", rule), lp, ret="list", search="all", only_addr=False)
        ctx.ran()
        ctx.event("bounds_grid_cells")
        want = lo <= r <= hi
        ctx.case(("grid", kind, r, lo, hi, form, by_macro), True, stratum=f"bounds grid/{kind}" + ("/by macro argument" if by_macro else ""), outcome="found" if (res[0] == "ok" and res[1]) else "exc" if res[0] != "ok" else "not found")
        case = {"grid": True, "rule": rule, "listing": text, "want": want, "covered": covered}
        if res[0] != "ok":
            ctx.disagreement(case, f"bounds grid: {kind} repeated r={r} times with times={t}: real raised {res[1]}: {res[2]}")
        elif bool(res[1]) != want:
            ctx.disagreement(case, f"bounds grid: {kind} repeated r={r} times, times={t}: expected {'found' if want else 'not found'} (min<=r<=max is {want}), got {str(res[1])[:100]}")
        elif want and not (len(res[1]) == 1 and res[1][0].startswith("401000::") and res[1][0].count("|") == covered):
            ctx.disagreement(case, f"bounds grid: {kind} r={r} times={t}: the hit must start at 401000 and cover {covered} instructions, got {[(h[:12], h.count('|')) for h in res[1]]}")


def replay_grid(ctx, case):
    ws = real.Workspace()
    res = real.match(ws.write("grid.yaml", case["rule"]), ws.write("grid.s", case["listing"]), ret="list", search="all", only_addr=False)
    ctx.ran()
    ok = res[0] == "ok" and bool(res[1]) == case["want"] and (not case["want"] or (len(res[1]) == 1 and res[1][0].count("|") == case["covered"]))
    if not ok:
        ctx.disagreement(case, f"bounds grid cell: expected found={case['want']} covering {case['covered']} instructions, got {str(res[:2])[:160]}")


def nested_times_stratum(ctx, d):
    """Repetition of a repetition, identical at every seed and judged by R-dsl: a group with `times` around a single element that has
    `times` itself (the reachable run lengths have gaps: (nop{2}){1,2} accepts 2 or 4, never 3), and $and_any_order groups with `times`
    whose members have variable length and overlap (the split of the first repetition must be allowed to give instructions back)."""
    from jv import dsl, listing as L
    cases = []
    inner_forms = [2, 3, {"min": 2, "max": 3}, {"min": 1, "max": 2}]
    outer_forms = [{"min": 1, "max": 2}, {"min": 0, "max": 1}, {"min": 2, "max": 3}, 2, {"min": 1, "max": 3}]
    for kind in ("$and", "$or", "$and_any_order"):
        for a in inner_forms:
            for t in outer_forms:
                cases.append(("single", kind, a, t))
    for form in range(6):
        cases.append(("anyorder", form, None, None))
    for kind in ("$and", "$or"):
        for t in (2, {"min": 1, "max": 2}, {"min": 2, "max": 3}):
            cases.append(("same-op", kind, t, t))
    for i, (what, kind, a, t) in enumerate(cases):
        if i % ctx.nshards != ctx.shard:
            continue
        if what == "single":
            for k in range(0, 8):
                insts, addr = [], 0x401000
                for m in ["push"] + ["nop"] * k + ["ret", "nop", "nop"]:
                    insts.append(L.SInst(addr, m, [], None, None, 1))
                    addr += 1
                prep = dsl.Prepared(d.ws, insts, ctx.rng)
                ctx.ran()
                if not prep.verify(d.ws):
                    ctx.inconc("parser disagreement on synthetic listing")
                    continue
                d.prep, d.style = prep, f"nested-times/{kind[1:]}"
                d.run_pattern(["push", {kind: [{"nop": {"times": a}}], "times": t}, "ret"], "base", True)
                ctx.event("nested_times_cells")
        elif what == "same-op":
            # an operator nested in the SAME operator, both levels with the SAME bound: (push (mov add){T}){T} is not (push mov add){T}
            inner = {kind: ["mov", "add"], "times": a}
            pat = ["ret", {kind: ["push", inner], "times": t}, "leave"]
            lo_ = a if isinstance(a, int) else a["min"]
            hi_ = a if isinstance(a, int) else a["max"]
            seqs = []
            for outer_n in range(max(1, lo_), hi_ + 1):
                for inner_n in range(lo_, hi_ + 1):
                    seqs.append((["push"] + ["mov", "add"] * inner_n) * outer_n)           # the written nesting ($and)
                    seqs.append(["push", "mov", "add"] * (outer_n * inner_n))             # what flattening would accept
                    seqs.append((["push"] * inner_n + ["mov"] * inner_n) * outer_n)         # runs of alternatives ($or)
                    seqs.append(["push", "mov", "add", "mov"] * outer_n)
            seen = set()
            for seq in seqs:
                if tuple(seq) in seen or len(seq) > 40:
                    continue
                seen.add(tuple(seq))
                insts, addr = [], 0x401000
                for m in ["ret"] + seq + ["leave", "ret"]:
                    insts.append(L.SInst(addr, m, [], None, None, 1))
                    addr += 1
                prep = dsl.Prepared(d.ws, insts, ctx.rng)
                ctx.ran()
                if not prep.verify(d.ws):
                    continue
                d.prep, d.style = prep, f"nested-times/same-operator/{kind[1:]}"
                d.run_pattern(pat, "base", True)
                ctx.event("nested_times_cells")
        else:
            form = kind
            seqs = [["push"] * 4 + ["call"], ["push", "push", "pop", "push", "call"], ["mov", "movl", "movl", "movl", "ret"], ["mov", "mov", "movl", "mov", "movl", "ret"],
                    ["push"] * 3 + ["call"], ["push"] * 5 + ["call"]]
            pats = [[{"$and_any_order": [{"push": {"times": {"min": 1, "max": 2}}}, {"$not": ["call"]}], "times": 2}, "call"],
                    [{"$and_any_order": [{"mov": {"times": {"min": 1, "max": 2}}}, "movl"], "times": 2}],
                    [{"$and_any_order": [{"push": {"times": {"min": 1, "max": 3}}}, "push"], "times": {"min": 1, "max": 2}}, "call"],
                    [{"$and_any_order": [{"mov": {"times": {"min": 0, "max": 2}}}, "movl"], "times": {"min": 2, "max": 3}}, "ret"],
                    [{"$or": [{"push": {"times": {"min": 1, "max": 2}}}, {"$and": ["push", "push", "push"]}], "times": 2}, "call"],
                    [{"$and": [{"push": {"times": {"min": 1, "max": 2}}}, {"$not": ["call"]}], "times": 2}, "call"]]
            pat = pats[form]
            for seq in seqs:
                insts, addr = [], 0x401000
                for m in ["ret"] + seq:
                    insts.append(L.SInst(addr, m, [], None, None, 1))
                    addr += 1
                prep = dsl.Prepared(d.ws, insts, ctx.rng)
                ctx.ran()
                if not prep.verify(d.ws):
                    continue
                d.prep, d.style = prep, "nested-times/any-order-variable-members"
                d.run_pattern(pat, "base", True)
                ctx.event("nested_times_cells")


def run_shard(ctx):
    bounds_grid_stratum(ctx, real.Workspace())
    d = drive.Driver(ctx, feat, flags="random", styles=("runs", "runs", "mixed", "tiny"), quirks=QUIRKS, extra=twin, classify=classify)
    d.loop(3000, 250000)
    group_probe_stratum(ctx, d, ctx.share(96, 4000))
    saved = d.flags
    d.flags = "none"
    nested_times_stratum(ctx, d)
    d.flags = saved


def replay(ctx, case):
    if case.get("grid"):
        return replay_grid(ctx, case)
    drive.replay_dsl(ctx, case, QUIRKS, classify)
