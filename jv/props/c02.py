"""C02 - repetition bounds (`times`) are honoured exactly."""
import copy

import yaml

from jv import drive, real, rulegen as RG

LEVEL = "exploration"
RULE = ("S-syn listings with planted runs of identical instructions and repeated blocks x rules whose items/groups carry "
        "`times` (integer, {min,max}, min only, max only; body spelling for operand-less items, sibling spelling for items "
        "with operands and for $and/$or/$not/$and_any_order groups, also $or groups with times inside operand lists), bounds chosen at the edges of the planted run "
        "(r-1, r, r+1); deterministic group probes (r alternating repetitions of a two-instruction group of every kind, framed by "
        "markers, bounds around r). Two oracles per execution: (1) R-dsl differential on found / leftmost start / hit windows; "
        "(2) model-free twin: the same rule with every top-level repeated element written out n times (or as an $or of the "
        "written-out lengths when max-min<=3), executed on the real code and compared on verdict and first address. "
        "Non-trivial = model finds the rule or the case is one mutation from a found case; distinct = (rule, listing).")
FLOOR = {"quick": 300, "thorough": 4000}
ANCHOR_HINTS = ["time_type_builder", "pattern_node_builder", "node_branch_root", "mnemonic_and_operand"]
REQUIRED_EVENTS = ["hits_located", "twin_compared"]
QUIRKS = []


def feat(rng):
    return RG.Feat(operands=0.5, times_item=0.6, groups=0.3, nots=0.08, group_times=0.7, ogroups=0.25, deref=0.5,
                   max_depth=1, max_spine=rng.choice([1, 2, 3]))


def expand_twin(pattern):
    """Write out every top-level repeated element. Returns list of alternative patterns (any-found semantics) or None."""
    alts = [[]]
    changed = False
    for el in pattern:
        t = None
        plain = el
        if isinstance(el, dict):
            keys = list(el.keys())
            name = keys[0]
            if "times" in el:
                t = el["times"]
                plain = {name: el[name]}
            elif isinstance(el[name], dict) and set(el[name].keys()) == {"times"}:
                t = el[name]["times"]
                plain = name
        if t is None:
            alts = [a + [el] for a in alts]
            continue
        if isinstance(t, int):
            lo = hi = t
        else:
            lo, hi = t.get("min", 1), t.get("max", 1)
        if lo > hi or hi - lo > 3 or hi > 8 or lo < 0:
            return None
        changed = True
        new = []
        for r in range(lo, hi + 1):
            for a in alts:
                new.append(a + [copy.deepcopy(plain) for _ in range(r)])
        alts = new
        if len(alts) > 24:
            return None
    alts = [a for a in alts if a]
    return alts if changed and alts else None


def first_addr(hits):
    return hits[0].split("::")[0] if hits else None


def twin(driver, doc, text, prep, o):
    ctx = driver.ctx
    if o.status != "ok":
        return
    alts = expand_twin(doc["pattern"])
    if alts is None:
        return
    best = None
    found = False
    for a in alts:
        d2 = dict(doc)
        d2["pattern"] = a
        rp = driver.ws.write("twin.yaml", real.dump_rule(d2))
        r = real.match(rp, prep.path, ret="list", search="first", only_addr=True)
        ctx.ran()
        if r[0] != "ok":
            ctx.inconc("twin raised " + r[1])
            return
        if r[1]:
            found = True
            v = int(r[1][0], 16) if r[1][0] else -1
            best = v if best is None else min(best, v)
    ctx.event("twin_compared")
    fa = first_addr(o.hits)
    real_first = (int(fa, 16) if fa else -1) if o.hits else None
    if found != o.found_real or (found and best != real_first):
        ctx.disagreement({"rule": text, "listing": prep.text, "sinsts": [[s.addr, s.mnem, s.ops, s.annotation, s.comment, s.nbytes] for s in prep.sinsts],
                          "twin_alternatives": [real.dump_rule({"pattern": a}) for a in alts][:6]},
                         f"times rule: found={o.found_real} first={real_first}; written-out twin: found={found} first={best} | regex={o.regex}",
                         classify(doc, prep, o))


def classify(doc, prep, o):
    return None


def group_probe_stratum(ctx, d, n):
    """Deterministic probes of `times` on every group kind: a listing with r repetitions of a two-instruction group (for
    $and_any_order the repetitions alternate their order, for $or the alternatives alternate) framed by marker instructions,
    and the bounds r-1, r, r+1 and ranges around r - so the edge behaviour does not depend on what the random generator hits."""
    from jv import dsl, listing as L
    rng = ctx.rng
    for _ in range(n):
        a, b, x, y = rng.sample(["push", "pop", "inc", "dec", "nop", "leave", "cltq", "hlt", "ret", "int3"], 4)
        kind = rng.choice(["$and_any_order", "$and_any_order", "$and", "$or", "$not"])
        r = rng.randint(1, 4)
        insts, addr = [], 0x401000

        def put(m):
            nonlocal addr
            insts.append(L.SInst(addr, m, [], None, None, 1))
            addr += 1
        put(x)
        for k in range(r):
            if kind == "$and_any_order":
                pair = [a, b] if (k % 2 == 0) != (rng.random() < 0.2) else [b, a]
                for m in pair:
                    put(m)
            elif kind == "$and":
                put(a), put(b)
            elif kind == "$or":
                put(a if k % 2 == 0 else b)
            else:
                put(a if k % 2 == 0 else b)          # $not [y]: anything but y
        put(y)
        put(x)
        group = {"$and_any_order": [a, b]} if kind == "$and_any_order" else {"$and": [a, b]} if kind == "$and" else \
            {"$or": [a, b]} if kind == "$or" else {"$not": [y]}
        prep = dsl.Prepared(d.ws, insts, rng)
        ctx.ran()
        if not prep.verify(d.ws):
            ctx.inconc("parser disagreement on synthetic listing")
            continue
        d.prep, d.style = prep, f"group-probe/{kind[1:]}"
        for t in (r, r - 1, r + 1, {"min": max(0, r - 1), "max": r}, {"min": r, "max": r + 1}, {"min": r + 1, "max": r + 2}, {"min": 0, "max": r}):
            if isinstance(t, int) and t < 0:
                continue
            g = dict(group)
            g["times"] = t
            d.run_pattern([x, g, y], "base", True)
        # the same repeated element used at two places of one rule (one YAML node, referred to by alias the second time)
        t = rng.choice([r, {"min": r, "max": r + 1}, {"min": max(1, r - 1), "max": r}])
        g = dict(group)
        g["times"] = t
        dbl = insts[:-1] + [L.SInst(0, s_.mnem, [], None, None, 1) for s_ in insts[:-1]] + [L.SInst(0, x, [], None, None, 1)]
        RG._readdress(dbl)
        prep2 = dsl.Prepared(d.ws, dbl, rng)
        ctx.ran()
        if prep2.verify(d.ws):
            d.prep, d.style = prep2, f"group-probe-shared/{kind[1:]}"
            saved, d.alias_twin = d.alias_twin, 1.0
            d.run_pattern([x, g, y, x, g, y], "base", True)
            d.alias_twin = saved
        ctx.event("group_probes")


def run_shard(ctx):
    d = drive.Driver(ctx, feat, flags="random", styles=("runs", "runs", "mixed", "tiny"), quirks=QUIRKS, extra=twin, classify=classify)
    d.loop(3000, 250000)
    group_probe_stratum(ctx, d, ctx.share(96, 4000))


def replay(ctx, case):
    drive.replay_dsl(ctx, case, QUIRKS, classify)
