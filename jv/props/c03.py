"""C03 - $or / $and / $and_any_order compose as alternation, sequence, permutation."""
from jv import drive, rulegen as RG

LEVEL = "exploration"
RULE = ("S-syn listings x rules nesting $or/$and/$and_any_order to depth 3 at instruction level, at operand level "
        "($or of operands, $and_any_order of two operands) and $or inside a $deref field; alternatives of different "
        "lengths, decoy alternatives taken from other instructions, any-order children shuffled; one-step mutants "
        "(drop/duplicate a child, drop an alternative, swap siblings). Oracle: R-dsl differential on found / leftmost "
        "start / hit windows. Non-trivial = model finds the rule or one mutation from a found case; distinct = (rule, listing).")
FLOOR = {"quick": 300, "thorough": 4000}
ANCHOR_HINTS = ["node_branch_root", "ast_builder", "pattern_node_builder", "deref_classes"]
REQUIRED_EVENTS = ["hits_located"]


def feat(rng):
    return RG.Feat(operands=0.6, groups=0.55, ogroups=0.35, deref=0.5, max_depth=rng.choice([1, 2, 3]),
                   max_spine=rng.choice([1, 2, 3]))


def run_shard(ctx):
    d = drive.Driver(ctx, feat, flags="random", styles=("mixed", "runs", "dups"))
    d.loop(3000, 250000)


def replay(ctx, case):
    drive.replay_dsl(ctx, case)
