"""C03 - $or / $and / $and_any_order compose as alternation, sequence, permutation."""
from jv import drive, rulegen as RG

LEVEL = "exploration"
RULE = ("S-syn listings x rules nesting $or/$and/$and_any_order to depth 3 at instruction level, at operand level "
        "($or of operands, $and_any_order of two operands) and $or inside a $deref field; alternatives of different "
        "lengths, decoy alternatives taken from other instructions, any-order children shuffled; one-step mutants "
        "(drop/duplicate a child, drop an alternative, swap siblings); a nesting stratum puts an operator directly inside the same or "
        "another operator (instruction and operand level) on listings that contain every order of the three elements. Oracle: R-dsl differential on found / leftmost "
        "start / hit windows. Non-trivial = model finds the rule or one mutation from a found case; distinct = (rule, listing). "
        "Repeated-group cells (each repetition takes another ordering / alternative) and mapping-spelling cells (operator children written as one mapping vs as a list).")
FLOOR = {"quick": 300, "thorough": 4000}
ANCHOR_HINTS = ["node_branch_root", "ast_builder", "pattern_node_builder", "deref_classes"]
REQUIRED_EVENTS = ["hits_located", "law_cases_compared", "wide_any_order_cells", "shared_list_cells", "capture_alternative_probes"]


def feat(rng):
    return RG.Feat(operands=0.6, groups=0.55, ogroups=0.4, deref=0.5, icaps=0.12, ocaps=0.12, hexh=0.2, max_depth=rng.choice([1, 2, 3]), max_odepth=rng.choice([1, 2, 3]),
                   max_spine=rng.choice([1, 2, 3]))


def nesting_stratum(ctx, d, n):
    """An operator nested directly in the same (or another) operator, on listings that contain EVERY order of the three
    elements: `$and_any_order: [a, $and_any_order: [b, c]]` keeps b and c adjacent, `$and: [a, $and: [b, c]]` is a b c only."""
    import itertools
    from jv import dsl, listing as L
    rng = ctx.rng
    ops3 = ["$and_any_order", "$and", "$or"]
    # every (level, outer, inner) combination is visited at every seed, several times with different elements
    combos = [(lv, o, i) for lv in ("instruction", "operand") for o in ops3 for i in ops3]
    for j in range(n):
        level, outer, inner = combos[(ctx.shard + j * ctx.nshards) % len(combos)]
        if level == "instruction":
            a, b, c = rng.sample(["push", "pop", "call", "ret", "leave", "nop", "inc", "dec"], 3)
            insts, addr = [], 0x401000
            for perm in itertools.permutations([a, b, c]):
                for m in perm:
                    insts.append(L.SInst(addr, m, [], None, None, 1))
                    addr += 1
                insts.append(L.SInst(addr, "hlt", [], None, None, 1))
                addr += 1
            # also windows with one element missing / doubled
            for m in (a, b, "hlt", b, c, "hlt", a, a, b, c, "hlt"):
                insts.append(L.SInst(addr, m, [], None, None, 1))
                addr += 1
            pattern = [{outer: rng.choice([[a, {inner: [b, c]}], [{inner: [b, c]}, a]])}]
            if rng.random() < 0.5:
                pattern = ["hlt"] + pattern + ["hlt"]
        else:
            r1, r2, r3 = rng.sample(["%rax", "%rbx", "%rcx", "%rdx", "%rsi", "%rdi"], 3)
            insts, addr = [], 0x401000
            for perm in itertools.permutations([r1, r2, r3]):
                insts.append(L.SInst(addr, "lea", list(perm), None, None, 3))
                addr += 3
            insts.append(L.SInst(addr, "lea", [r1, r2], None, None, 3))
            insts.append(L.SInst(addr + 3, "lea", [r2, r3], None, None, 3))
            pattern = [{"lea": [{outer: rng.choice([[r1[1:], {inner: [r2[1:], r3[1:]]}], [{inner: [r2[1:], r3[1:]]}, r1[1:]]])}]}]
        prep = dsl.Prepared(d.ws, insts, rng)
        ctx.ran()
        if not prep.verify(d.ws):
            ctx.inconc("parser disagreement on synthetic listing")
            continue
        d.prep, d.style = prep, f"nesting/{level}/{outer[1:]}>{inner[1:]}"
        d.run_pattern(pattern, "base", True)


REGFAM64 = {"%rax": "&genreg.{}.64", "%rbx": "&genreg.{}.64", "%rcx": "&genreg.{}.64", "%rdx": "&genreg.{}.64",
            "%rsi": "&indreg.{}.64", "%rdi": "&indreg.{}.64", "%rsp": "&stackreg.{}.64", "%rbp": "&basereg.{}.64"}


def law_stratum(ctx, d, n):
    """Model-free composition laws, real against real, so that alternatives R-dsl does not interpret (capture definitions,
    register-family captures, whole $deref items) are covered as well:
      found(C[$or: [A, B]])            == found(C[A]) or found(C[B])
      found(C[$and_any_order: [A, B]]) == found(C[$and: [A, B]]) or found(C[$and: [B, A]])
      C[$and: [A, B]]                  reports the hits of C with A, B written in its place
    C is a positive context executed once (the items around the operator); for a one-instruction C the all-matches address
    lists are compared as sets (a union), otherwise found/not found. Levels: instruction, operand, $deref field."""
    import copy
    from jv import dsl, listing as L, real as R, refline
    rng = ctx.rng
    cap = [0]

    def fresh(prefix):
        cap[0] += 1
        return f"&{prefix}{cap[0]}"

    def addrs(pattern, prep):
        text = R.dump_rule({"pattern": pattern})
        r = R.match(d.ws.write("law.yaml", text), prep.path, ret="list", search="all", only_addr=True)
        ctx.ran()
        return text, r

    for _ in range(n):
        prep = d.new_listing(rng.choice(["tiny", "dups", "mixed", "regs"]))
        insts = prep.sinsts
        level = rng.choice(["instruction", "operand", "operand", "deref", "deref"])
        cands = [k for k, s_ in enumerate(insts) if RG.clean(s_.mnem) and not s_.annotation
                 and (level == "instruction" or (s_.ops and all(RG.clean(o) or "(" in o for o in s_.ops)))
                 and (level != "deref" or any(refline.mem_components(o) and refline.mem_components(o)[1] for o in s_.ops if "(" in o and ":" not in o))]
        if not cands:
            ctx.event("law_case_without_candidate")
            continue
        k = rng.choice(cands)
        si = insts[k]
        other = insts[rng.randrange(len(insts))]

        def alt_inst(s_):
            r = rng.random()
            if r < 0.35 or not RG.clean(s_.mnem):
                return s_.mnem if RG.clean(s_.mnem) else "zzzq"
            if r < 0.55:
                return fresh("i")
            if r < 0.7:
                return "zzzq"
            names = [o for o in s_.ops if RG.clean(o)]
            return {s_.mnem: names[:rng.randint(1, len(names))]} if names and len(names) == len(s_.ops) else s_.mnem

        def alt_op(o):
            r = rng.random()
            if "(" in o:
                comp = refline.mem_components(o) if ":" not in o else None
                if comp and comp[1] and r < 0.6:
                    kk, a, b, c = comp
                    body = {"main_reg": a}
                    if b:
                        body["register_multiplier"] = b
                    if c and b:
                        body["constant_multiplier"] = c
                    if kk:
                        body["constant_offset"] = kk
                    return {"$deref": body}
                return fresh("o") if r < 0.8 else "zzzq"
            if r < 0.3:
                return o
            if r < 0.45 and len(o) > 2:
                return o[1:]
            if r < 0.65:
                return fresh("o")
            if r < 0.8 and o in REGFAM64:
                return REGFAM64[o].format(fresh("x")[1:])
            return "zzzq"

        def alt_field(v):
            r = rng.random()
            if r < 0.35:
                return v
            if r < 0.6:
                return fresh("d")
            if r < 0.75 and v in REGFAM64:
                return REGFAM64[v].format(fresh("y")[1:])
            if r < 0.85 and v.startswith("%"):
                return v[1:]
            return "zzzq"

        op_name = rng.choice(["$or", "$or", "$and_any_order", "$and"]) if level != "deref" else "$or"
        # context: the item itself, optionally with its neighbours written literally
        pre = [insts[k - 1].mnem] if k > 0 and RG.clean(insts[k - 1].mnem) and rng.random() < 0.4 else []
        post = [insts[k + 1].mnem] if k + 1 < len(insts) and RG.clean(insts[k + 1].mnem) and rng.random() < 0.4 else []
        if level == "instruction":
            if op_name == "$or":
                A, B = alt_inst(si), alt_inst(rng.choice([si, other]))
                if rng.random() < 0.5:
                    A, B = B, A
                variants = [[A], [B]]
            else:
                if k + 1 >= len(insts):
                    continue
                A, B = alt_inst(si), alt_inst(insts[k + 1])
                post = []
                variants = [[A, B], [B, A]] if op_name == "$and_any_order" else [[A, B]]
                if rng.random() < 0.5 and op_name == "$and_any_order":
                    A, B = B, A
            build = lambda body: pre + body + post           # noqa: E731
            marked = build([{op_name: [A, B]}])
            expansions = [build(v) for v in variants]
        elif level == "operand":
            p = rng.randrange(len(si.ops))
            lits = [(o if RG.clean(o) else fresh("o")) for o in si.ops]
            if op_name == "$or":
                A, B = alt_op(si.ops[p]), alt_op(rng.choice(si.ops + (other.ops or ["%rax"])))
                if rng.random() < 0.5:
                    A, B = B, A
                variants, width = [[A], [B]], 1
            else:
                if p + 1 >= len(si.ops):
                    continue
                A, B = alt_op(si.ops[p]), alt_op(si.ops[p + 1])
                variants, width = ([[A, B], [B, A]] if op_name == "$and_any_order" else [[A, B]]), 2
                if rng.random() < 0.5 and op_name == "$and_any_order":
                    A, B = B, A
            build = lambda body: pre + [{si.mnem: lits[:p] + body + lits[p + width:]}] + post      # noqa: E731
            marked = build([{op_name: [A, B]}])
            expansions = [build(v) for v in variants]
        else:
            mems = [p for p, o in enumerate(si.ops) if "(" in o and ":" not in o and refline.mem_components(o) and refline.mem_components(o)[1]]
            p = rng.choice(mems)
            kk, a, b, c = refline.mem_components(si.ops[p])
            body = {"main_reg": a}
            if b:
                body["register_multiplier"] = b
            if c and b:
                body["constant_multiplier"] = c
            if kk:
                body["constant_offset"] = kk
            if c and not b:
                ctx.event("law_case_scale_without_index_skipped")
                continue
            fname = rng.choice(list(body))
            A, B = alt_field(body[fname]), alt_field(rng.choice([body[fname], "%rbp", "0x10", "8", "%rax"]))
            if rng.random() < 0.5:
                A, B = B, A
            lits = [(o if RG.clean(o) else fresh("o")) for o in si.ops]

            def build(val):
                bd = dict(body)
                bd[fname] = val
                return pre + [{si.mnem: lits[:p] + [{"$deref": bd}] + lits[p + 1:]}] + post
            marked = build([{"$or": [A, B]}])
            expansions = [build(A), build(B)]
        tm, rm = addrs(marked, prep)
        outs = [addrs(e, prep) for e in expansions]
        if any(r[0] != "ok" for _, r in outs):
            ctx.event("law_case_expansion_rejected_by_real_code")
            continue
        ctx.event("law_cases_compared")
        single = not pre and not post and (level != "instruction" or op_name == "$or")
        union = sorted(set(x for _, r in outs for x in r[1]), key=lambda x: int(x, 16))
        found = bool(union)
        ctx.case((tm, prep.expect), found, stratum=f"law/{level}/{op_name[1:]}", outcome="found" if found else "not found")
        why = None
        if rm[0] != "ok":
            why = f"real raised {rm[1]}: {rm[2]} although every expansion compiles"
        elif single and "multisec" != d.style and sorted(set(rm[1]), key=lambda x: int(x, 16)) != union:
            why = f"{op_name} reports {rm[1][:8]} but its expansions report {union[:8]}"
        elif bool(rm[1]) != found:
            why = f"{op_name} found={bool(rm[1])} but its expansions found={found}"
        if why:
            ctx.disagreement({"rule": tm, "listing": prep.text, "expansions": [t for t, _ in outs], "single": single, "desc": "law"},
                             why + f" | expansions: {[t for t, _ in outs]} | regex={rm[2] if rm[0] == 'ok' else ''}"[:900])
        elif found:
            ctx.sample("law", {"rule": tm, "expansions": [t for t, _ in outs], "addresses": union[:6]})


def replay_law(ctx, case):
    from jv import real as R
    ws = R.Workspace()
    lp = ws.write("l.s", case["listing"])

    def addrs(text):
        return R.match(ws.write("law.yaml", text), lp, ret="list", search="all", only_addr=True)
    rm = addrs(case["rule"])
    outs = [addrs(t) for t in case["expansions"]]
    ctx.ran()
    if any(r[0] != "ok" for r in outs):
        return
    union = sorted(set(x for r in outs for x in r[1]), key=lambda x: int(x, 16))
    if rm[0] != "ok" or (case.get("single") and sorted(set(rm[1]), key=lambda x: int(x, 16)) != union) or bool(rm[1]) != bool(union):
        ctx.disagreement(case, f"operator reports {rm[1] if rm[0] == 'ok' else rm[1:]} but its expansions report {union[:8]}")


def wide_any_order_stratum(ctx, d):
    """$and_any_order with six children (720 orderings), two of which can match the same instruction (a repeated child, or a name
    contained in another): windows that hold the right number of instructions but the wrong multiset must not match. Identical at every seed."""
    from jv import dsl, listing as L
    cases = [
        (["push", "push", "pop", "mov", "add", "sub"], [["push", "pop", "pop", "mov", "add", "sub"], ["sub", "add", "mov", "pop", "push", "push"], ["push", "push", "push", "mov", "add", "sub"]]),
        (["mov", "movl", "add", "sub", "inc", "dec"], [["movl", "movl", "add", "sub", "inc", "dec"], ["dec", "inc", "sub", "add", "movl", "mov"], ["mov", "mov", "add", "sub", "inc", "dec"]]),
        (["nop", "nop", "nop", "ret", "hlt", "cli"], [["nop", "nop", "ret", "ret", "hlt", "cli"], ["cli", "hlt", "ret", "nop", "nop", "nop"]]),
        (["a", "ad", "add", "sub", "inc", "dec"], [["add", "add", "add", "sub", "inc", "dec"], ["dec", "inc", "sub", "add", "adc", "lea"]]),
    ]
    for i, (children, windows) in enumerate(cases):
        if i % ctx.nshards != ctx.shard % len(cases) or ctx.shard >= len(cases):
            continue
        for w in windows:
            insts, addr = [], 0x401000
            for m in ["ret"] + w + ["leave"]:
                insts.append(L.SInst(addr, m, [], None, None, 1))
                addr += 1
            prep = dsl.Prepared(d.ws, insts, ctx.rng)
            ctx.ran()
            if not prep.verify(d.ws):
                continue
            d.prep, d.style = prep, "wide-any-order"
            kids = list(children)
            ctx.rng.shuffle(kids)
            d.run_pattern([{"$and_any_order": kids}], "base", True)
            d.run_pattern(["ret", {"$and_any_order": kids}, "leave"], "base", True)
            ctx.event("wide_any_order_cells")


def shared_list_stratum(ctx, d):
    """One YAML list object (anchor and alias) used as the child list of an order-insensitive operator and of an order-sensitive one:
    what `$or` / `$and_any_order` do with their children must not show in `$and` or in an operand list. Identical at every seed."""
    from jv import dsl, listing as L
    cases = []
    for names in (["push", "mov"], ["pop", "call", "add"], ["mov", "lea"]):
        for first in ("$or", "$and_any_order"):
            cases.append(("inst", first, names))
    for ops in (["%rsi", "%rax"], ["%rdx", "%rcx", "%rbx"]):
        for first in ("$or", "$and_any_order"):
            cases.append(("operand", first, ops))
    for i, (level, first, names) in enumerate(cases):
        if i % ctx.nshards != ctx.shard % max(1, min(len(cases), ctx.nshards)) or ctx.shard >= len(cases):
            continue
        shared = list(names)                       # ONE list object: the YAML dump writes it once and refers to it by alias
        if level == "inst":
            seq = list(reversed(names)) + names + sorted(names) + names
            insts, addr = [], 0x401000
            for m in seq + ["ret"]:
                insts.append(L.SInst(addr, m, [], None, None, 1))
                addr += 1
            pattern = [{first: shared}, {"$and": shared}]
        else:
            insts = [L.SInst(0x401000, "lea", list(reversed(names)), None, None, 4), L.SInst(0x401004, "lea", list(names), None, None, 4),
                     L.SInst(0x401008, "lea", sorted(names), None, None, 4), L.SInst(0x40100c, "lea", list(names), None, None, 4)]
            pattern = [{"lea": [{first: shared}] if first == "$and_any_order" else [{first: shared}] + names[1:]}, {"lea": shared}]
        prep = dsl.Prepared(d.ws, insts, ctx.rng)
        ctx.ran()
        if not prep.verify(d.ws):
            continue
        d.prep, d.style = prep, f"shared-list/{level}/{first[1:]}"
        saved, d.alias_twin = d.alias_twin, 0.0      # the sharing is in the pattern itself
        d.run_pattern(pattern, "base", True)
        d.alias_twin = saved
        ctx.event("shared_list_cells")


def capture_alternative_probes(ctx, d):
    """A later occurrence of an instruction / operand capture as one alternative of an $or whose other alternatives are plain single
    instructions / operands (identical at every seed)."""
    from jv import dsl, listing as L
    insts, addr = [], 0x401000
    for m, ops in [("push", ["%rax"]), ("push", ["%rax"]), ("ret", []), ("push", ["%rbx"]), ("nop", []), ("ret", []), ("push", ["%rcx"]), ("pop", ["%rcx"]), ("ret", []),
                   ("mov", ["%rax", "%rax"]), ("mov", ["%rax", "%rbx"]), ("mov", ["%rdx", "%rcx"])]:
        insts.append(L.SInst(addr, m, list(ops), None, None, 2))
        addr += 2
    prep = dsl.Prepared(d.ws, insts, ctx.rng)
    ctx.ran()
    if not prep.verify(d.ws):
        ctx.inconc("parser disagreement on synthetic listing")
        return
    saved, d.flags = d.flags, "none"
    d.prep, d.style = prep, "capture-alternative"
    for pat in (["&i", {"$or": ["&i", "nop"]}, "ret"], ["&i", {"$or": ["nop", "&i"]}, "ret"], ["&i", {"$or": ["&i", "pop"]}, "ret"], ["&j", {"$or": ["&j"]}, "ret"],
                [{"mov": ["&o", {"$or": ["&o", "%rbx"]}]}], [{"mov": ["&o", {"$or": ["%rcx", "&o"]}]}], [{"mov": ["&p", {"$and_any_order": ["&p"]}]}],
                ["&k", {"$and_any_order": ["&k", "ret"]}], ["&k", {"$and": ["&k", "ret"]}]):
        d.run_pattern(pat, "base", True)
        ctx.event("capture_alternative_probes")
    d.flags = saved


def repeated_group_stratum(ctx, d):
    """A group carrying `times`, on listings where every repetition takes ANOTHER alternative / ordering than the one before (and on
    near misses): the repetition repeats the group, not the choice made in its first round. Instruction and operand level;
    identical at every seed."""
    from jv import dsl, listing as L
    rows = [["push", "inc", "inc", "push"], ["inc", "push", "push", "inc"], ["push", "inc", "push", "inc"], ["push", "push", "inc", "inc"],
            ["push", "inc", "inc", "push", "push", "inc"], ["push", "inc", "inc"], ["inc", "inc", "push", "push", "inc", "push"]]
    insts, addr = [], 0x401000
    for row in rows:
        for m in ["hlt"] + row + ["ret"]:
            insts.append(L.SInst(addr, m, ["%rax"] if m in ("push", "inc") else [], None, None, 2))
            addr += 2
    for ops in (["%rax", "%rbx", "%rbx", "%rax"], ["%rbx", "%rax", "%rax", "%rbx"], ["%rax", "%rbx", "%rax", "%rbx"], ["%rax", "%rax", "%rbx", "%rbx"], ["%rax", "%rbx", "%rbx"]):
        insts.append(L.SInst(addr, "vfoo", ops + ["%rdx"], None, None, 6, verbatim=True))
        addr += 6
    prep = dsl.Prepared(d.ws, insts, ctx.rng)
    ctx.ran()
    if not prep.verify(d.ws):
        ctx.inconc("parser disagreement on synthetic listing")
        return
    saved, d.flags = d.flags, "none"
    d.prep, d.style = prep, "repeated-groups"
    for t in (2, 3, {"min": 1, "max": 3}, {"min": 2, "max": 2}):
        for kind in ("$and_any_order", "$or", "$and"):
            d.run_pattern(["hlt", {kind: ["push", "inc"], "times": t}, "ret"], "base", True)
            d.run_pattern(["hlt", {kind: ["inc", "push"], "times": t}, "ret"], "base", True)
            d.run_pattern([{"vfoo": [{kind: ["%rax", "%rbx"], "times": t}, "%rdx"]}], "base", True)
            d.run_pattern([{"vfoo": [{kind: ["%rbx", "%rax"], "times": t}, "%rdx"]}], "base", True)
            ctx.event("repeated_group_cells", 4)
        # a repeated group inside another group, and a repeated any-order of groups
        d.run_pattern(["hlt", {"$and": [{"$and_any_order": ["push", "inc"], "times": t}]}, "ret"], "base", True)
        d.run_pattern(["hlt", {"$and_any_order": [{"$or": ["push", "inc"]}, {"$or": ["inc", "push"]}], "times": t}, "ret"], "base", True)
        ctx.event("repeated_group_cells", 2)
    d.flags = saved


def mapping_spelling_stratum(ctx, ws):
    from jv import real
    """The children of an operator - or the top-level `pattern:` - written as ONE mapping (`$and: {push: [%rbp], mov: [%rsp, %rbp]}`) instead of a list of one-key
    mappings: where the rule loads at all, the children are the entries in the order they are written, so the rule reports what
    its list spelling reports (keys in and out of alphabetical order). Identical at every seed; no model."""
    from jv import listing as L
    rows = [("push", ["%rbp"]), ("mov", ["%rsp", "%rbp"]), ("ret", []), ("mov", ["%rsp", "%rbp"]), ("push", ["%rbp"]), ("ret", []),
            ("add", ["$0x8", "%rsp"]), ("sub", ["$0x8", "%rsp"]), ("xor", ["%eax", "%eax"]), ("ret", []), ("xor", ["%eax", "%eax"]), ("sub", ["$0x8", "%rsp"]), ("add", ["$0x8", "%rsp"])]
    insts, addr = [], 0x401000
    for m, ops in rows:
        insts.append(L.SInst(addr, m, list(ops), None, None, 3))
        addr += 3
    lp = ws.write("map.s", L.render(insts, ctx.rng, labels=False))
    for kind in ("$and", "$or", "$and_any_order"):
        for kids in ([("push", ["%rbp"]), ("mov", ["%rsp", "%rbp"])], [("mov", ["%rsp", "%rbp"]), ("push", ["%rbp"])],
                     [("xor", ["%eax"]), ("sub", ["0x8"]), ("add", ["0x8", "%rsp"])], [("add", ["0x8"]), ("sub", ["0x8"]), ("xor", ["%eax", "%eax"])]):
            as_list = real.dump_rule({"pattern": [{kind: [{m: o} for m, o in kids]}]})
            as_map = real.dump_rule({"pattern": [{kind: {m: o for m, o in kids}}]})
            if kind == "$and" and len(kids) == 3:
                # the top-level `pattern:` itself written as one mapping (it is the $and of its entries)
                as_list = real.dump_rule({"pattern": [{m: o} for m, o in kids]})
                as_map = real.dump_rule({"pattern": {m: o for m, o in kids}})
                ctx.event("mapping_spelling_cells_top_level_pattern")
            r1 = real.match(ws.write("map_l.yaml", as_list), lp, ret="list", search="all", only_addr=False)
            r2 = real.match(ws.write("map_m.yaml", as_map), lp, ret="list", search="all", only_addr=False)
            ctx.ran(2)
            if r2[0] != "ok":
                ctx.event("mapping_spelling_rejected_by_the_loader")
                continue
            ctx.event("mapping_spelling_cells")
            ctx.case(("mapping-spelling", as_map), bool(r1[1]), stratum="children written as one mapping", outcome="found" if r2[1] else "not found")
            if r1[0] != "ok" or list(r1[1]) != list(r2[1]):
                ctx.disagreement({"mapping_spelling": True, "rule": as_map, "list_rule": as_list, "listing": open(lp).read()},
                                 f"{kind} with its children written as one mapping reports {str(r2[1])[:160]}; written as a list, in the same order, {str(r1[1:2])[:160]}")


def replay_mapping(ctx, case):
    from jv import real
    ws = real.Workspace()
    lp = ws.write("map.s", case["listing"])
    r1 = real.match(ws.write("map_l.yaml", case["list_rule"]), lp, ret="list", search="all", only_addr=False)
    r2 = real.match(ws.write("map_m.yaml", case["rule"]), lp, ret="list", search="all", only_addr=False)
    ctx.ran(2)
    if r2[0] == "ok" and (r1[0] != "ok" or list(r1[1]) != list(r2[1])):
        ctx.disagreement(case, f"children written as one mapping: {str(r2[1])[:160]}; as a list: {str(r1[1:2])[:160]}")


def deref_alternative_laws(ctx, ws):
    """Alternatives inside a $deref field, with every mix of signs and spellings (negative, positive, with and without 0x, quoted and
    as YAML integers; registers with and without %): the addresses reported for `field: {$or: [a, b, ...]}` are exactly the union of
    the addresses reported for `field: a`, `field: b`, ... (composition law, no model; identical at every seed)."""
    from jv import listing as L, real
    rows = [("mov", ["0x8(%rbp)", "%rax"]), ("mov", ["-0x8(%rbp)", "%rax"]), ("mov", ["-0x10(%rbp)", "%rax"]), ("mov", ["0x10(%rbp)", "%rax"]), ("mov", ["(%rbp)", "%rax"]),
            ("mov", ["0x8(%rsp)", "%rax"]), ("mov", ["0x8(%rbp,%rcx,4)", "%rax"]), ("mov", ["-0x8(%rbp,%rdx,8)", "%rax"]), ("mov", ["0x18(%rbp,%rcx,2)", "%rax"]), ("ret", [])]
    insts, addr = [], 0x401000
    for m, ops in rows:
        insts.append(L.SInst(addr, m, list(ops), None, None, 4))
        addr += 4
    lp = ws.write("dalt.s", L.render(insts, ctx.rng, labels=False))

    def hits(deref):
        rule = real.dump_rule({"pattern": [{"mov": [{"$deref": deref}, "%rax"]}]})
        r = real.match(ws.write("dalt.yaml", rule), lp, ret="list", search="all", only_addr=True)
        ctx.ran()
        return rule, (sorted(r[1]) if r[0] == "ok" else ("exc", r[1]))
    cells = []
    for alts in (["-0x8", 8], ["-8", "0x10"], [8, "-0x10"], ["-0x8", "-0x10"], ["0x8", "0x10"], [8, 10], ["-0x8", "0x8", "-0x10", 10], ["0x8", "-8"], [-8, 8], ["-0x10", "8"]):
        cells.append(("constant_offset", {"main_reg": "rbp"}, alts))
    for alts in (["rbp", "%rsp"], ["%rbp", "rsp"], ["rsp", "rbp"]):
        cells.append(("main_reg", {"constant_offset": "0x8"}, alts))
    for alts in ([4, "0x8"], ["4", 2], [8, 2, "0x4"]):
        cells.append(("constant_multiplier", {"main_reg": "rbp", "register_multiplier": [{"$or": ["rcx", "rdx"]}], "constant_offset": [{"$or": ["0x8", "-0x8", "0x18"]}]}, alts))
    for field, rest, alts in cells:
        rule, whole = hits({**rest, field: [{"$or": list(alts)}]})          # the spelling of tests/yamls/logic_operators_inside_deref.yaml
        parts = [hits({**rest, field: a})[1] for a in alts]
        ctx.event("deref_alternative_laws_judged")
        ctx.case(("deref-alt", field, str(alts)), True, stratum="alternatives inside a $deref field", outcome="found" if whole and whole[0] != "exc" else "not found")
        if any(isinstance(p, tuple) for p in parts) or isinstance(whole, tuple):
            if isinstance(whole, tuple) != all(isinstance(p, tuple) for p in parts):
                ctx.disagreement({"deref_alt": True, "rule": rule, "field": field, "alts": [str(a) for a in alts]}, f"{field}: $or {alts}: the group gives {whole}, its alternatives alone give {parts}")
            continue
        union = sorted(set(x for p in parts for x in p))
        if whole != union:
            ctx.disagreement({"deref_alt": True, "rule": rule, "field": field, "alts": [str(a) for a in alts]},
                             f"{field}: $or {alts} is reported at {whole}; its alternatives alone are reported at {parts} (union {union})")


def run_shard(ctx):
    d = drive.Driver(ctx, feat, flags="random", styles=("mixed", "runs", "dups"))
    d.loop(3000, 250000)
    nesting_stratum(ctx, d, ctx.share(180, 6000))
    law_stratum(ctx, d, ctx.share(480, 20000))
    wide_any_order_stratum(ctx, d)
    shared_list_stratum(ctx, d)
    if ctx.shard == 6 % ctx.nshards:
        capture_alternative_probes(ctx, d)
    if ctx.shard == 7 % ctx.nshards:
        repeated_group_stratum(ctx, d)
    if ctx.shard == 5 % ctx.nshards:
        mapping_spelling_stratum(ctx, d.ws)
    if ctx.shard == 4 % ctx.nshards:
        deref_alternative_laws(ctx, d.ws)


def replay(ctx, case):
    if case.get("mapping_spelling"):
        return replay_mapping(ctx, case)
    if case.get("deref_alt"):
        from jv import real
        return deref_alternative_laws(ctx, real.Workspace())
    if case.get("desc") == "law":
        return replay_law(ctx, case)
    drive.replay_dsl(ctx, case)
