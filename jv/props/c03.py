"""C03 - $or / $and / $and_any_order compose as alternation, sequence, permutation."""
from jv import drive, rulegen as RG

LEVEL = "exploration"
RULE = ("S-syn listings x rules nesting $or/$and/$and_any_order to depth 3 at instruction level, at operand level "
        "($or of operands, $and_any_order of two operands) and $or inside a $deref field; alternatives of different "
        "lengths, decoy alternatives taken from other instructions, any-order children shuffled; one-step mutants "
        "(drop/duplicate a child, drop an alternative, swap siblings); a nesting stratum puts an operator directly inside the same or "
        "another operator (instruction and operand level) on listings that contain every order of the three elements. Oracle: R-dsl differential on found / leftmost "
        "start / hit windows. Non-trivial = model finds the rule or one mutation from a found case; distinct = (rule, listing).")
FLOOR = {"quick": 300, "thorough": 4000}
ANCHOR_HINTS = ["node_branch_root", "ast_builder", "pattern_node_builder", "deref_classes"]
REQUIRED_EVENTS = ["hits_located"]


def feat(rng):
    return RG.Feat(operands=0.6, groups=0.55, ogroups=0.4, deref=0.5, max_depth=rng.choice([1, 2, 3]), max_odepth=rng.choice([1, 2, 3]),
                   max_spine=rng.choice([1, 2, 3]))


def nesting_stratum(ctx, d, n):
    """An operator nested directly in the same (or another) operator, on listings that contain EVERY order of the three
    elements: `$and_any_order: [a, $and_any_order: [b, c]]` keeps b and c adjacent, `$and: [a, $and: [b, c]]` is a b c only."""
    import itertools
    from jv import dsl, listing as L
    rng = ctx.rng
    ops3 = ["$and_any_order", "$and", "$or"]
    for _ in range(n):
        level = rng.choice(["instruction", "operand"])
        outer, inner = rng.choice(ops3), rng.choice(ops3)
        if level == "instruction":
            a, b, c = rng.sample(["push", "pop", "call", "ret", "leave", "nop", "inc", "dec"], 3)
            insts, addr = [], 0x401000
            for perm in itertools.permutations([a, b, c]):
                for m in perm:
                    insts.append(L.SInst(addr, m, [], None, None, 1))
                    addr += 1
                insts.append(L.SInst(addr, "hlt", [], None, None, 1))
                addr += 1
            # also windows with one element missing / doubled
            for m in (a, b, "hlt", b, c, "hlt", a, a, b, c, "hlt"):
                insts.append(L.SInst(addr, m, [], None, None, 1))
                addr += 1
            pattern = [{outer: rng.choice([[a, {inner: [b, c]}], [{inner: [b, c]}, a]])}]
            if rng.random() < 0.5:
                pattern = ["hlt"] + pattern + ["hlt"]
        else:
            r1, r2, r3 = rng.sample(["%rax", "%rbx", "%rcx", "%rdx", "%rsi", "%rdi"], 3)
            insts, addr = [], 0x401000
            for perm in itertools.permutations([r1, r2, r3]):
                insts.append(L.SInst(addr, "lea", list(perm), None, None, 3))
                addr += 3
            insts.append(L.SInst(addr, "lea", [r1, r2], None, None, 3))
            insts.append(L.SInst(addr + 3, "lea", [r2, r3], None, None, 3))
            pattern = [{"lea": [{outer: rng.choice([[r1[1:], {inner: [r2[1:], r3[1:]]}], [{inner: [r2[1:], r3[1:]]}, r1[1:]]])}]}]
        prep = dsl.Prepared(d.ws, insts, rng)
        ctx.ran()
        if not prep.verify(d.ws):
            ctx.inconc("parser disagreement on synthetic listing")
            continue
        d.prep, d.style = prep, f"nesting/{level}/{outer[1:]}>{inner[1:]}"
        d.run_pattern(pattern, "base", True)


def run_shard(ctx):
    d = drive.Driver(ctx, feat, flags="random", styles=("mixed", "runs", "dups"))
    d.loop(3000, 250000)
    nesting_stratum(ctx, d, ctx.share(180, 6000))


def replay(ctx, case):
    drive.replay_dsl(ctx, case)
