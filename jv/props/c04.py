"""C04 - $not consumes exactly one instruction (or operand) at which its argument fails."""
from jv import drive, rulegen as RG

LEVEL = "exploration"
RULE = ("S-syn listings x rules with $not in leading, inner, trailing and repeated (times) position at instruction level "
        "(argument: one item, or a two-instruction $and of which only the first half matches) and $not in operand "
        "lists followed by further operand items / a following instruction item; $not as a child of operand-level $or / $and_any_order; "
        "probe strata: three- and four-operand instructions with an operand $not before further items, and $not: [$not: [G]] with "
        "a multi-instruction G; wide instructions (4-5 operands, brace decorations); an exhaustive instruction-level not grid (13 arguments x 4 pattern shapes x neighbours, "
        "expected hits by the plain definition on the mnemonic sequence, identical at every seed). Oracle: R-dsl differential; every hit "
        "text must decode to exactly a model window (catches 'consumed two instructions' and hits that do not start at "
        "a record). Non-trivial = model finds the rule or one mutation from a found case; distinct = (rule, listing).")
FLOOR = {"quick": 300, "thorough": 4000}
ANCHOR_HINTS = ["node_branch_root", "ast_builder"]
REQUIRED_EVENTS = ["hits_located", "operand_not_probes", "double_negation_probes", "capture_as_not_argument_probes", "wide_instruction_probes", "not_grid_cells"]


def feat(rng):
    return RG.Feat(operands=0.6, nots=0.45, onots=0.3, groups=0.15, ogroups=0.25, group_times=0.25, ocaps=0.3, icaps=0.15, regfam=0.15, max_depth=2,
                   max_spine=rng.choice([1, 2, 3, 4]))


def run_shard(ctx):
    d = drive.Driver(ctx, feat, flags="random", styles=("mixed", "runs", "dups", "multisec", "kernel"))
    d.loop(3000, 250000)
    from jv import strata
    strata.operand_not_stratum(ctx, d, ctx.share(160, 6000))
    strata.double_negation_stratum(ctx, d, ctx.share(96, 4000))
    if ctx.shard == 3 % ctx.nshards:
        strata.capture_not_stratum(ctx, d)
    if ctx.shard == 4 % ctx.nshards:
        strata.not_memory_probes(ctx, d)
    strata.wide_instruction_stratum(ctx, d, ctx.share(96, 4000))
    strata.not_grid_stratum(ctx, d.ws)


def replay(ctx, case):
    if case.get("notgrid"):
        from jv import strata
        return strata.replay_not_grid(ctx, case)
    drive.replay_dsl(ctx, case)
