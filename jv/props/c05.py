"""C05 - capture groups bind consistently across a pattern."""
from jv import drive, model as M, real, rulegen as RG

LEVEL = "exploration"
RULE = ("S-syn listings with planted duplicates (whole instructions copied to a later position; an operand copied into a "
        "later instruction, exactly or as a prefix/extension/other width of it) x rules with instruction-level captures, "
        "operand-level captures and register-family captures (&genreg/&indreg/&stackreg/&basereg, suffix .64/.32/.16/.8H/.8L "
        "in both letter cases or none); definitions on the spine, later uses anywhere (inside $or/$not/$and_any_order/times), "
        "several names interleaved, spines up to 12 items (group numbers >= 10), other group kinds between definition and "
        "use. Oracle: R-dsl differential (identity of re-matched text, README width table). Non-trivial = model finds the "
        "rule or one mutation from a found case, and the rule contains a capture; distinct = (rule, listing). "
        "$deref component cells (no model): the same item twice on identical lines, a line differing in one named component, component names reused as plain operands.")
FLOOR = {"quick": 300, "thorough": 4000}
ANCHOR_HINTS = ["capture_manager", "capture_group", "capture_group_index", "special_register"]
REQUIRED_EVENTS = ["hits_located"]
QUIRKS = []


def any_order_capture_probes(ctx, d):
    """Capture definitions inside $and_any_order, used again after the group: each child of an any-order group executes exactly once,
    so the binding is well defined whatever the order in the listing (open finding F21 on the current tree)."""
    from jv import dsl, listing as L
    insts, addr = [], 0x401000
    for m, ops in [("push", ["%rax"]), ("pop", ["%rbx"]), ("push", ["%rax"]), ("ret", []), ("pop", ["%rbx"]), ("push", ["%rax"]), ("push", ["%rax"]), ("ret", []),
                   ("pop", ["%rbx"]), ("push", ["%rcx"]), ("push", ["%rax"]), ("ret", []), ("lea", ["%rsi", "%rdi"]), ("add", ["%rdi", "%rsi"]), ("lea", ["%rdx", "%rcx"]), ("add", ["%rdx", "%rcx"])]:
        insts.append(L.SInst(addr, m, list(ops), None, None, 2))
        addr += 2
    prep = dsl.Prepared(d.ws, insts, ctx.rng)
    ctx.ran()
    if not prep.verify(d.ws):
        ctx.inconc("parser disagreement on synthetic listing")
        return
    saved, d.flags = d.flags, "none"
    d.prep, d.style = prep, "any-order-capture-probe"
    for pat in ([{"$and_any_order": [{"push": ["&r"]}, "pop"]}, {"push": ["&r"]}, "ret"], [{"$and_any_order": ["&i", "pop"]}, "&i", "ret"],
                [{"$and_any_order": ["pop", {"push": ["&r"]}]}, {"push": ["&r"]}, "ret"], [{"lea": [{"$and_any_order": ["&a", "&b"]}]}, {"add": ["&b", "&a"]}],
                [{"lea": [{"$and_any_order": ["&a", "&b"]}]}, {"add": ["&a", "&b"]}]):
        d.run_pattern(pat, "base", True)
        ctx.event("any_order_capture_probes")
    d.flags = saved


def deref_component_probes(ctx, ws):
    """Capture names inside $deref fields, judged by construction (no model, identical at every seed). Law 1: a rule whose two
    items are the SAME item (same names in the same fields) is found on two identical consecutive lines, whatever each name binds,
    for every non-empty subset of captured fields and both key orders of the mapping. Law 2: when the second line differs from the
    first in exactly one captured component, the rule is not found. Law 3: a name bound to a component and used later as a plain
    operand matches the operand with the identical text (register `%rbx` after `(%rbx)`, immediate `0x18` after `0x18(%rdi)`) and
    not another one."""
    import itertools
    from jv import listing as L
    FIELDS = ("main_reg", "register_multiplier", "constant_multiplier", "constant_offset")
    lit = {"main_reg": "rbx", "register_multiplier": "rcx", "constant_multiplier": 8, "constant_offset": "0x18"}
    cap = {"main_reg": "&base", "register_multiplier": "&idx", "constant_multiplier": "&scale", "constant_offset": "&disp"}
    variants = {"main_reg": "0x18(%rdx,%rcx,8)", "register_multiplier": "0x18(%rbx,%rsi,8)", "constant_multiplier": "0x18(%rbx,%rcx,4)", "constant_offset": "0x20(%rbx,%rcx,8)"}
    base_op = "0x18(%rbx,%rcx,8)"

    def ask(pattern, rows, want, what):
        insts, addr = [], 0x401000
        for m, ops in rows:
            insts.append(L.SInst(addr, m, list(ops), None, None, 4))
            addr += 4
        text = L.render(insts, ctx.rng, labels=False)
        rule = real.dump_rule({"pattern": pattern})
        res = real.match(ws.write("dc.yaml", rule), ws.write("dc.s", text), ret="list", search="all", only_addr=True)
        ctx.ran()
        ctx.event("deref_component_capture_probes")
        got = res[0] == "ok" and bool(res[1])
        ctx.case(("deref-component", rule, text), True, stratum="deref component captures/" + what.split(":")[0], outcome="found" if got else "not found")
        if res[0] != "ok" or got != want:
            ctx.disagreement({"deref_component": True, "rule": rule, "listing": text, "want": want},
                             f"{what}: expected {'found' if want else 'not found'}, got {str(res[1:2])[:120]} | regex={str(res[2])[:400] if res[0] == 'ok' else res[1:]}")

    for n in range(1, 5):
        for chosen in itertools.combinations(FIELDS, n):
            for order in (FIELDS, FIELDS[::-1]):
                deref = {"$deref": {k: (cap[k] if k in chosen else lit[k]) for k in order}}
                pat = [{"mov": [deref, "%rax"]}, {"mov": [deref, "%rax"]}]
                ask(pat, [("mov", [base_op, "%rax"]), ("mov", [base_op, "%rax"]), ("ret", [])], True,
                    f"identical lines: names in {list(chosen)}, keys written {'forward' if order is FIELDS else 'reversed'}")
                for k in chosen:
                    ask(pat, [("mov", [base_op, "%rax"]), ("mov", [variants[k], "%rax"]), ("ret", [])], False,
                        f"one component differs: names in {list(chosen)}, second line differs in {k}")
    # a component name used again as a plain operand, and a plain operand name used again as a component
    for pat, rows, want, what in (
            ([{"mov": [{"$deref": {"main_reg": "&ptr"}}, "%rax"]}, {"push": ["&ptr"]}], [("mov", ["(%rbx)", "%rax"]), ("push", ["%rbx"])], True, "component then operand: same register"),
            ([{"mov": [{"$deref": {"main_reg": "&ptr"}}, "%rax"]}, {"push": ["&ptr"]}], [("mov", ["(%rbx)", "%rax"]), ("push", ["%rcx"])], False, "component then operand: other register"),
            ([{"lea": [{"$deref": {"main_reg": "%rdi", "constant_offset": "&size"}}, "%rsi"]}, {"cmp": ["&size", "%rdx"]}], [("lea", ["0x18(%rdi)", "%rsi"]), ("cmp", ["$0x18", "%rdx"])], True,
             "component then operand: same constant"),
            ([{"lea": [{"$deref": {"main_reg": "%rdi", "constant_offset": "&size"}}, "%rsi"]}, {"cmp": ["&size", "%rdx"]}], [("lea", ["0x18(%rdi)", "%rsi"]), ("cmp", ["$0x20", "%rdx"])], False,
             "component then operand: other constant"),
            ([{"lea": [{"$deref": {"main_reg": "&b", "register_multiplier": "&i", "constant_multiplier": 8}}, "%rsi"]}, {"add": ["&i", "&b"]}],
             [("lea", ["(%rbx,%rcx,8)", "%rsi"]), ("add", ["%rcx", "%rbx"])], True, "two components then operands: same registers"),
            ([{"lea": [{"$deref": {"main_reg": "&b", "register_multiplier": "&i", "constant_multiplier": 8}}, "%rsi"]}, {"add": ["&i", "&b"]}],
             [("lea", ["(%rbx,%rcx,8)", "%rsi"]), ("add", ["%rbx", "%rcx"])], False, "two components then operands: swapped registers"),
            ([{"push": ["&r"]}, {"mov": [{"$deref": {"main_reg": "&r", "constant_offset": "0x8"}}, "%rax"]}], [("push", ["%rbx"]), ("mov", ["0x8(%rbx)", "%rax"])], True, "operand then component: same register"),
            ([{"push": ["&r"]}, {"mov": [{"$deref": {"main_reg": "&r", "constant_offset": "0x8"}}, "%rax"]}], [("push", ["%rbx"]), ("mov", ["0x8(%rcx)", "%rax"])], False, "operand then component: other register")):
        ask(pat, rows + [("ret", [])], want, what)


def replay_deref_component(ctx, case):
    ws = real.Workspace()
    res = real.match(ws.write("dc.yaml", case["rule"]), ws.write("dc.s", case["listing"]), ret="list", search="all", only_addr=True)
    ctx.ran()
    if res[0] != "ok" or bool(res[1]) != case["want"]:
        ctx.disagreement(case, f"deref component capture probe: expected {'found' if case['want'] else 'not found'}, got {str(res[1:2])[:120]}")


def bare_register_probes(ctx, ws):
    """Register names written without the `%` sigil (what `objdump -M intel` prints, and what the optional `%?` of the generated
    expressions is there for): for every family and every (width of the first occurrence, width of the later use) pair a rule
    `inc: [&fam-x.w1], dec: [&fam-x.w2]` is reported exactly at the places where the listing holds `inc R<w1>; dec R<w2>` of ONE
    architectural register. By construction, no model, identical at every seed."""
    from jv import listing as L
    fams = {"&genreg": {"a": {"64": "rax", "32": "eax", "16": "ax", "8h": "ah", "8l": "al"}, "b": {"64": "rbx", "32": "ebx", "16": "bx", "8h": "bh", "8l": "bl"},
                        "c": {"64": "rcx", "32": "ecx", "16": "cx", "8h": "ch", "8l": "cl"}},
            "&indreg": {"s": {"64": "rsi", "32": "esi", "16": "si", "8l": "sil"}, "d": {"64": "rdi", "32": "edi", "16": "di", "8l": "dil"}},
            "&stackreg": {"sp": {"64": "rsp", "32": "esp", "16": "sp", "8l": "spl"}},
            "&basereg": {"bp": {"64": "rbp", "32": "ebp", "16": "bp", "8l": "bpl"}}}
    for prefix, letters in fams.items():
        insts, addr, where = [], 0x403000, {}
        widths = sorted({w for ws_ in letters.values() for w in ws_})
        for l, ws_ in letters.items():
            others = [x for x in letters if x != l] or [l]
            for w1 in widths:
                for w2 in widths:
                    if w1 in ws_ and w2 in ws_:
                        where.setdefault((w1, w2), []).append(format(addr, "x"))
                        insts += [L.SInst(addr, "inc", [ws_[w1]], None, None, 3, verbatim=True), L.SInst(addr + 3, "dec", [ws_[w2]], None, None, 3, verbatim=True),
                                  L.SInst(addr + 6, "nop", [], None, None, 1)]
                        addr += 7
                        o = letters[others[0]]
                        if others[0] != l and w2 in o:
                            # the same widths on two DIFFERENT registers of the family: never a match
                            insts += [L.SInst(addr, "inc", [ws_[w1]], None, None, 3, verbatim=True), L.SInst(addr + 3, "dec", [o[w2]], None, None, 3, verbatim=True),
                                      L.SInst(addr + 6, "nop", [], None, None, 1)]
                            addr += 7
        text = L.render(insts, ctx.rng, labels=False)
        lp = ws.write("bare.s", text)
        name = prefix + "-x"
        for w1 in widths:
            for w2 in widths:
                rule = real.dump_rule({"config": {"mnemonics-full-match": True}, "pattern": [{"inc": [name + "." + w1]}, {"dec": [name + "." + w2]}]})
                res = real.match(ws.write("bare.yaml", rule), lp, ret="list", search="all", only_addr=True)
                ctx.ran()
                ctx.event("bare_register_name_probes")
                want = where.get((w1, w2), [])
                ctx.case(("bare-register", rule), bool(want), stratum="register names without %", outcome="found" if res[0] == "ok" and res[1] else "not found")
                if res[0] != "ok" or list(res[1]) != want:
                    ctx.disagreement({"bare_register": True, "rule": rule, "listing": text, "want": want},
                                     f"register names without %: {name}.{w1} then {name}.{w2} reported at {str(res[1:2])[:160]}, the listing holds such pairs of one register at {want[:8]}")


def replay_bare(ctx, case):
    ws = real.Workspace()
    res = real.match(ws.write("bare.yaml", case["rule"]), ws.write("bare.s", case["listing"]), ret="list", search="all", only_addr=True)
    ctx.ran()
    if res[0] != "ok" or list(res[1]) != case["want"]:
        ctx.disagreement(case, f"register names without %: reported at {str(res[1:2])[:160]}, expected {case['want'][:8]}")


def numbering_after_alternatives(ctx, ws):
    """Names that are first seen as ALTERNATIVES of one $or (each alternative opens a group of its own), followed by names defined
    and used again after it: the later names refer to their own groups. By construction, identical at every seed."""
    from jv import listing as L
    def ask(pattern, rows, want, what):
        insts, addr = [], 0x401000
        for m, ops in rows:
            insts.append(L.SInst(addr, m, list(ops), None, None, 3))
            addr += 3
        text = L.render(insts, ctx.rng, labels=False)
        rule = real.dump_rule({"pattern": pattern})
        res = real.match(ws.write("alt.yaml", rule), ws.write("alt.s", text), ret="list", search="all", only_addr=True)
        ctx.ran()
        ctx.event("numbering_after_alternatives_probes")
        got = res[0] == "ok" and bool(res[1])
        ctx.case(("after-alternatives", rule, text), True, stratum="names defined after alternatives that open groups", outcome="found" if got else "not found")
        if res[0] != "ok" or got != want:
            ctx.disagreement({"deref_component": True, "rule": rule, "listing": text, "want": want},
                             f"{what}: expected {'found' if want else 'not found'}, got {str(res[1:2])[:120]} | regex={str(res[2])[:300] if res[0] == 'ok' else res[1:]}")
    for alts in (["&a", "&b"], ["&a", "&b", "&e"], ["&a", "%rzz", "&b"], [{"$deref": {"main_reg": "&m"}}, {"$deref": {"main_reg": "&n"}}]):
        pat = [{"mov": [{"$or": list(alts)}, "%rax"]}, {"push": ["&c"]}, {"pop": ["&d"]}, {"add": ["&d", "&c"]}]
        memop = isinstance(alts[0], dict)
        first = "(%rbx)" if memop else "%rbx"
        ask(pat, [("mov", [first, "%rax"]), ("push", ["%rcx"]), ("pop", ["%rdx"]), ("add", ["%rdx", "%rcx"])], True, f"alternatives {alts}, later names in their places")
        ask(pat, [("mov", [first, "%rax"]), ("push", ["%rcx"]), ("pop", ["%rdx"]), ("add", ["%rcx", "%rdx"])], False, f"alternatives {alts}, later names swapped")
        ask(pat, [("mov", [first, "%rax"]), ("push", ["%rcx"]), ("pop", ["%rdx"]), ("add", ["%rdx", "%rbx"])], False, f"alternatives {alts}, a later name compared with the alternative's text")
    for group in ("$or", "$and_any_order"):
        pat = [{group: [{"push": ["&a"]}, {"pop": ["&b"]}]}, {"mov": ["&c", "&d"]}, {"add": ["&d", "&c"]}] if group == "$or" else None
        if pat:
            ask(pat, [("push", ["%rbx"]), ("mov", ["%rcx", "%rdx"]), ("add", ["%rdx", "%rcx"])], True, "instruction alternatives with names, later names in their places")
            ask(pat, [("pop", ["%rbx"]), ("mov", ["%rcx", "%rdx"]), ("add", ["%rcx", "%rdx"])], False, "instruction alternatives with names, later names swapped")


def feat(rng):
    r = rng.random()
    if r < 0.15:   # other constructs (items with and without operands carrying times, groups, $not) between definitions and uses:
        #            any stray capturing parenthesis they emitted would shift the numbers of the judged back-references
        return RG.Feat(operands=0.55, ocaps=0.45, icaps=0.15, times_item=0.45, groups=0.25, nots=0.2, ogroups=0.2, group_times=0.4, hexh=0.3, deref=0.6,
                       max_depth=1, max_spine=rng.choice([3, 4, 5, 6]))
    if r < 0.45:   # operand captures
        return RG.Feat(operands=0.9, ocaps=0.6, groups=0.15, nots=0.1, ogroups=0.15, times_item=0.1, group_times=0.2, hexh=0.15, excess_ops=0.2,
                       max_depth=1, max_spine=rng.choice([2, 3, 4, 6]))
    if r < 0.62:   # instruction captures
        return RG.Feat(operands=0.5, icaps=0.5, groups=0.15, nots=0.1, max_depth=1, max_spine=rng.choice([2, 3, 4, 5]))
    if r < 0.8:    # register families
        return RG.Feat(operands=0.95, regfam=0.7, ocaps=0.1, groups=0.1, ogroups=0.1, max_depth=1, max_spine=rng.choice([2, 3, 4]))
    if r < 0.9:    # register families, also as base / index register of a $deref
        return RG.Feat(operands=0.95, regfam=0.6, deref=0.9, ocaps=0.1, max_depth=1, max_spine=rng.choice([2, 3, 4]))
    return RG.Feat(operands=0.95, ocaps=0.8, icaps=0.1, max_depth=0, max_spine=12)   # many names


def cap_names(node, acc):
    if isinstance(node, str) and node.startswith("&"):
        reg = M.split_reg_name(node)
        acc.append(reg[1] if reg else node)
    elif isinstance(node, list):
        for x in node:
            cap_names(x, acc)
    elif isinstance(node, dict):
        for k, v in node.items():
            cap_names(k, acc)
            cap_names(v, acc)
    return acc


def reuses_capture(pattern) -> bool:
    names = cap_names(pattern, [])
    return len(names) != len(set(names))


def classify(doc, prep, o):
    try:
        if M.defs_in_any_order(M.parse_rule(doc)):
            # open finding F21: every ordering of an any-order group gets its own copy of a capturing group defined inside it, so
            # later occurrences see only the written order (and the numbers of captures defined afterwards shift)
            return "capture_defined_inside_any_order"
    except M.Unsupported:
        pass
    names = cap_names(doc.get("pattern"), [])
    if any(M.split_reg_name(n) for n in names if isinstance(n, str)):
        return "regfam_capture"
    return None


def twice(driver, doc, text, prep, o):
    """A Yaml2Regex object asked twice must produce the same matcher (the capture table is per compilation)."""
    ctx = driver.ctx
    if o.status != "ok":
        return
    try:
        y = real.y2r.Yaml2Regex(driver.ws.path("rule.yaml"))
        r1, r2 = y.produce_regex(), y.produce_regex()
    except Exception as e:  # noqa: BLE001
        ctx.disagreement({"rule": text, "listing": prep.text, "sinsts": []}, f"second produce_regex() on the same Yaml2Regex object raised {type(e).__name__}: {e}")
        return
    ctx.ran(2)
    ctx.event("same_object_compiled_twice")
    if r1 != r2 or r1 != o.regex:
        ctx.disagreement({"rule": text, "listing": prep.text, "sinsts": []}, f"produce_regex() differs between calls on one object: {r1[:150]!r} vs {r2[:150]!r}")


def numbering_probes(ctx, d):
    """Every construct kind once in front of a capture definition that is used again: a stray capturing parenthesis emitted
    by ANY node type shifts the number the back-reference points to (mechanism 'no other capturing group is ever emitted')."""
    from jv import dsl, listing as L
    R = {"min": 1, "max": 2}
    kinds = {
        "item-times": {"xor": {"times": R}},
        "item-operands-times": {"xor": ["rsi"], "times": R},
        "or": {"$or": ["xor", "zzz"]},
        "or-times": {"$or": ["xor", "zzz"], "times": R},
        "and-times": {"$and": ["xor"], "times": R},
        "not": {"$not": ["zzz"]},
        "not-times": {"$not": ["zzz"], "times": 1},
        "any-order": {"$and_any_order": ["xor"]},
        "any-order-times": {"$and_any_order": ["xor"], "times": R},
        "deref-times": {"xor": [{"$deref": {"main_reg": "rsi"}, "times": 2}]},
        "operand-or": {"xor": [{"$or": ["rsi", "zz"]}]},
        "operand-or-times": {"xor": [{"$or": ["rsi", "zz"], "times": 2}]},
        "operand-not": {"xor": [{"$not": ["zz"]}]},
        "operand-any-order": {"xor": [{"$and_any_order": ["rsi", "si"]}]},
        "operand-and": {"xor": [{"$and": ["rsi", "rsi"]}]},
        "deref": {"xor": [{"$deref": {"main_reg": [{"$or": ["rsi", "rdi"]}]}}]},
        "hex-literal": {"cmp": ["10h"]},
        "instruction-capture": "&first",
    }
    saved, d.flags = d.flags, "none"           # the probe names are substrings: default (substring) matching only
    for tail_reg in ("%rbx", "%rax"):
        for lead in (["xor", ["(%rsi)", "(%rsi)"]], ["cmp", ["$0x10", "%rcx"]]):
            insts = [L.SInst(0x401000, lead[0], lead[1], None, None, 3), L.SInst(0x401003, "mov", ["%rax", "%rbx"], None, None, 3),
                     L.SInst(0x401006, "push", [tail_reg], None, None, 1), L.SInst(0x401007, "ret", [], None, None, 1)]
            prep = dsl.Prepared(d.ws, insts, ctx.rng)
            ctx.ran()
            if not prep.verify(d.ws):
                ctx.inconc("parser disagreement on synthetic listing")
                continue
            d.prep, d.style = prep, "numbering-probe"
            for name, k in kinds.items():
                if (name == "hex-literal") != (lead[0] == "cmp"):
                    continue
                d.run_pattern([k, {"mov": ["rax", "&a"]}, {"push": ["&a"]}], "base", True)
                d.run_pattern([k, "&i", {"push": ["&b"]}, "ret"], "base", True) if name != "instruction-capture" else None
                ctx.event("numbering_probes")
    d.flags = saved


def regfam_probes(ctx, d):
    """Deterministic register-family probes: for every family and every pair of widths, a bare or suffixed definition followed by
    a suffixed use, on the same architectural register (must match) and on another register of the family (must not);
    capture names with capital letters, digits and dashes."""
    from jv import dsl, listing as L
    fams = {"&genreg": {"a": {"64": "%rax", "32": "%eax", "16": "%ax", "8h": "%ah", "8l": "%al"}, "b": {"64": "%rbx", "32": "%ebx", "16": "%bx", "8h": "%bh", "8l": "%bl"}},
            "&indreg": {"s": {"64": "%rsi", "32": "%esi", "16": "%si", "8l": "%sil"}, "d": {"64": "%rdi", "32": "%edi", "16": "%di", "8l": "%dil"}},
            "&stackreg": {"sp": {"64": "%rsp", "32": "%esp", "16": "%sp", "8l": "%spl"}},
            "&basereg": {"bp": {"64": "%rbp", "32": "%ebp", "16": "%bp", "8l": "%bpl"}}}
    rng = ctx.rng
    saved, d.flags = d.flags, "none"
    for prefix, letters in fams.items():
        for tag in ("", "-1", "-Acc", "_Ptr2", ".acc"):
            name = prefix + tag
            l1 = rng.choice(list(letters))
            l2 = rng.choice([x for x in letters if x != l1] or [l1])
            w_def = rng.choice(list(letters[l1]))
            w_use = rng.choice(list(letters[l1]))
            w_use2 = rng.choice(list(letters[l1]))
            insts = [L.SInst(0x401000, "add", ["$0x1", letters[l1][w_def]], None, None, 3),
                     L.SInst(0x401003, "mov", [letters[l1][w_use], letters[l1][w_use2]], None, None, 3),
                     L.SInst(0x401006, "add", ["$0x1", letters[l1][w_def]], None, None, 3),
                     L.SInst(0x401009, "mov", [letters[l2].get(w_use, letters[l2]["64"]), letters[l2].get(w_use2, letters[l2]["64"])], None, None, 3),
                     L.SInst(0x40100c, "add", ["$0x1", letters[l1][w_def]], None, None, 3),
                     L.SInst(0x40100f, "mov", [letters[l2].get(w_use, letters[l2]["64"]), letters[l1][w_use2]], None, None, 3),
                     L.SInst(0x401012, "ret", [], None, None, 1)]
            prep = dsl.Prepared(d.ws, insts, rng)
            ctx.ran()
            if not prep.verify(d.ws):
                ctx.inconc("parser disagreement on synthetic listing")
                continue
            d.prep, d.style = prep, "regfam-probe"

            def sfx(w):
                return "." + (w.upper() if rng.random() < 0.5 else w)
            for first in (name, name + sfx(w_def)):
                d.run_pattern([{"add": [1, first]}, {"mov": [name + sfx(w_use), name + sfx(w_use2)]}], "base", True)
            # a use with a width the register at that place does not have
            other = rng.choice([w for w in letters[l1] if w != w_use] or [w_use])
            d.run_pattern([{"add": [1, name]}, {"mov": [name + sfx(other), name + sfx(w_use2)]}], "base", True)
            ctx.event("regfam_probes")
    # a FIRST occurrence with every width suffix, for every family: it binds only a register printed at that width
    # (identical at every seed: one listing per family with every register of the family at every width)
    for prefix, letters in fams.items():
        insts, addr = [], 0x401000
        regs = [(l, w, nm) for l, ws_ in letters.items() for w, nm in ws_.items()]
        for l, w, nm in regs:
            insts.append(L.SInst(addr, "inc", [nm], None, None, 3))
            insts.append(L.SInst(addr + 3, "dec", [nm], None, None, 3))
            addr += 6
        prep = dsl.Prepared(d.ws, insts, rng)
        ctx.ran()
        if not prep.verify(d.ws):
            ctx.inconc("parser disagreement on synthetic listing")
            continue
        d.prep, d.style = prep, "regfam-first-occurrence-probe"
        for w in sorted({w for _, w, _ in regs}):
            name = prefix + rng.choice(["-1", "", "_x"])
            sf = "." + (w.upper() if rng.random() < 0.5 else w)
            d.run_pattern([{"inc": [name + sf]}, {"dec": [name + sf]}], "base", True)
        d.run_pattern([{"inc": [prefix + "-9"]}, {"dec": [prefix + "-9.64"]}], "base", True)
        ctx.event("regfam_first_occurrence_probes")
    # every (width of the first occurrence, width of the later use) pair, both suffixed: one listing per family holding
    # inc X<w1>; dec X<w2> for every register and every pair, one rule per pair (identical at every seed)
    for prefix, letters in fams.items():
        insts, addr = [], 0x402000
        widths = sorted({w for ws_ in letters.values() for w in ws_})
        for l, ws_ in letters.items():
            for w1 in widths:
                for w2 in widths:
                    if w1 in ws_ and w2 in ws_:
                        insts.append(L.SInst(addr, "inc", [ws_[w1]], None, None, 3))
                        insts.append(L.SInst(addr + 3, "dec", [ws_[w2]], None, None, 3))
                        insts.append(L.SInst(addr + 6, "nop", [], None, None, 1))
                        addr += 7
        prep = dsl.Prepared(d.ws, insts, rng)
        ctx.ran()
        if not prep.verify(d.ws):
            ctx.inconc("parser disagreement on synthetic listing")
            continue
        d.prep, d.style = prep, "regfam-width-pair-probe"
        name = prefix + rng.choice(["-1", "_w", ".p"])
        for w1 in widths:
            for w2 in widths:
                d.run_pattern([{"inc": [name + "." + w1]}, {"dec": [name + "." + w2]}], "base", True)
                ctx.event("regfam_width_pair_probes")
    # the same capture used as base / index register of a memory operand (64-bit names): definition outside, use inside a $deref
    # and the other way round; the other register of the family must not match
    for prefix, letters in fams.items():
        name = prefix + rng.choice(["", "-1", "_m"])
        l1 = rng.choice(list(letters))
        l2 = rng.choice([x for x in letters if x != l1] or [l1])
        r1, r2 = letters[l1]["64"], letters[l2]["64"]
        idx_ok = prefix != "&stackreg"
        insts = [L.SInst(0x401000, "add", ["$0x1", r1], None, None, 3), L.SInst(0x401003, "mov", [f"0x8({r1})", "%rcx"], None, None, 4),
                 L.SInst(0x401007, "add", ["$0x1", r1], None, None, 3), L.SInst(0x40100a, "mov", [f"0x8({r2})", "%rcx"], None, None, 4),
                 L.SInst(0x40100e, "lea", [f"({r1})", "%rdx"], None, None, 3), L.SInst(0x401011, "sub", [r1, "%rdx"], None, None, 3),
                 L.SInst(0x401014, "lea", [f"({r1})", "%rdx"], None, None, 3), L.SInst(0x401017, "sub", [r2, "%rdx"], None, None, 3)]
        if idx_ok:
            insts += [L.SInst(0x40101a, "add", ["$0x1", r1], None, None, 3), L.SInst(0x40101d, "mov", [f"(%r8,{r1},4)", "%rcx"], None, None, 4),
                      L.SInst(0x401021, "add", ["$0x1", r1], None, None, 3), L.SInst(0x401024, "mov", [f"(%r8,{r2},4)", "%rcx"], None, None, 4)]
        prep = dsl.Prepared(d.ws, insts, rng)
        ctx.ran()
        if not prep.verify(d.ws):
            ctx.inconc("parser disagreement on synthetic listing")
            continue
        d.prep, d.style = prep, "regfam-deref-probe"
        d.run_pattern([{"add": [1, name + rng.choice(["", ".64"])]}, {"mov": [{"$deref": {"main_reg": name + ".64", "constant_offset": "0x8"}}]}], "base", True)
        d.run_pattern([{"lea": [{"$deref": {"main_reg": name + rng.choice(["", ".64"])}}]}, {"sub": [name + ".64"]}], "base", True)
        if idx_ok:
            d.run_pattern([{"add": [1, name]}, {"mov": [{"$deref": {"main_reg": "r8", "register_multiplier": name + ".64", "constant_multiplier": 4}}]}], "base", True)
    # base AND index captured in one memory operand, the mapping written in either key order, then both names used again
    insts = [L.SInst(0x401000, "mov", ["(%rbx,%rcx,8)", "%rax"], None, None, 4), L.SInst(0x401004, "add", ["%rcx", "%rbx"], None, None, 3),
             L.SInst(0x401007, "mov", ["(%rbx,%rcx,8)", "%rax"], None, None, 4), L.SInst(0x40100b, "add", ["%rbx", "%rcx"], None, None, 3),
             L.SInst(0x40100e, "mov", ["0x10(%rdx,%rdx,2)", "%rax"], None, None, 5), L.SInst(0x401013, "add", ["%rdx", "%rdx"], None, None, 3)]
    prep = dsl.Prepared(d.ws, insts, rng)
    ctx.ran()
    if prep.verify(d.ws):
        d.prep, d.style = prep, "regfam-deref-two-captures"
        for order in (("main_reg", "register_multiplier", "constant_multiplier"), ("register_multiplier", "main_reg", "constant_multiplier"),
                      ("constant_multiplier", "register_multiplier", "main_reg")):
            vals = {"main_reg": "&genreg-b.64", "register_multiplier": "&genreg-i.64", "constant_multiplier": 8}
            d.run_pattern([{"mov": [{"$deref": {k: vals[k] for k in order}}]}, {"add": ["&genreg-i.64", "&genreg-b.64"]}], "base", True)
            d.run_pattern([{"mov": [{"$deref": {k: vals[k] for k in order}}]}, {"add": ["&genreg-b.64", "&genreg-i.64"]}], "base", True)
            ctx.event("regfam_deref_two_capture_probes")
        ctx.event("regfam_deref_probes")
    d.flags = saved


def case_twin_probes(ctx, d):
    """Capture names that differ only in letter case, or that contain dots, are different / ordinary names (identical at every seed)."""
    from jv import dsl, listing as L
    rng = ctx.rng
    insts = [L.SInst(0x401000, "mov", ["%rax", "%rbx"], None, None, 3), L.SInst(0x401003, "add", ["%rbx", "%rax"], None, None, 3),
             L.SInst(0x401006, "mov", ["%rcx", "%rdx"], None, None, 3), L.SInst(0x401009, "add", ["%rcx", "%rdx"], None, None, 3),
             L.SInst(0x40100c, "mov", ["%rsi", "%rsi"], None, None, 3), L.SInst(0x40100f, "add", ["%rsi", "%rsi"], None, None, 3),
             L.SInst(0x401012, "push", ["%rdi"], None, None, 1), L.SInst(0x401013, "push", ["%rdi"], None, None, 1), L.SInst(0x401014, "ret", [], None, None, 1),
             L.SInst(0x401015, "(bad)", [], None, None, 1), L.SInst(0x401016, "(bad)", [], None, None, 1), L.SInst(0x401017, "nop", [], None, None, 1),
             L.SInst(0x401018, "nop", [], None, None, 1), L.SInst(0x401019, "(bad)", [], None, None, 1)]
    prep = dsl.Prepared(d.ws, insts, rng)
    ctx.ran()
    if not prep.verify(d.ws):
        ctx.inconc("parser disagreement on synthetic listing")
        return
    saved, d.flags = d.flags, "none"
    d.prep, d.style = prep, "case-twin-probe"
    for a, b in (("&Reg", "&reg"), ("&r", "&R"), ("&src.v1", "&src.v2"), ("&a.b", "&a"), ("&X-1", "&x-1")):
        d.run_pattern([{"mov": [a, b]}, {"add": [b, a]}], "base", True)
        d.run_pattern([{"mov": [a, b]}, {"add": [a, b]}], "base", True)
        d.run_pattern([{"mov": [a, a]}, {"add": [b, b]}], "base", True)
    # an element repeated zero times that holds the only occurrence of a name, in front of captures that are used again
    for dead in ({"push": ["&scratch"], "times": 0}, {"push": ["&scratch"], "times": {"min": 0, "max": 0}}, {"$and": [{"mov": ["&s1", "&s2"]}], "times": 0},
                 {"mov": [{"$deref": {"main_reg": "&genreg-dead.64"}}], "times": 0}):
        d.run_pattern([dead, {"mov": ["&first", "&second"]}, {"add": ["&second", "&first"]}], "base", True)
        d.run_pattern([{"mov": ["&first", "&second"]}, dead, {"add": ["&second", "&first"]}], "base", True)
        ctx.event("zero_times_probes")
    for a, b in (("&I", "&i"), ("&ins.1", "&ins.2")):
        d.run_pattern([a, {"add": ["%rbx"]}, b, {"add": ["%rcx"]}], "base", True)
        d.run_pattern([a, a], "base", True)
        d.run_pattern([a, b], "base", True)
        d.run_pattern(["ret", a, a, "nop"], "base", True)          # the two (bad) rows: an instruction capture binds any instruction
        d.run_pattern([a, a, b, b], "base", True)
        ctx.event("case_twin_probes")
    d.flags = saved


def run_shard(ctx):
    d = drive.Driver(ctx, feat, flags="random", styles=("tiny", "tiny", "dups", "regs"), quirks=QUIRKS, classify=classify,
                     accept=reuses_capture, interesting=reuses_capture, extra=twice)
    d.allow_any_order_defs = True
    if ctx.shard == 0:
        numbering_probes(ctx, d)
    if ctx.shard in (1, 2, 3):
        regfam_probes(ctx, d)
    if ctx.shard == 4 % ctx.nshards:
        case_twin_probes(ctx, d)
    if ctx.shard == 5 % ctx.nshards:
        any_order_capture_probes(ctx, d)
    if ctx.shard == 6 % ctx.nshards:
        deref_component_probes(ctx, d.ws)
    if ctx.shard == 7 % ctx.nshards:
        bare_register_probes(ctx, d.ws)
    if ctx.shard == 0:
        numbering_after_alternatives(ctx, d.ws)
    d.loop(3500, 300000)


def replay(ctx, case):
    if case.get("deref_component"):
        return replay_deref_component(ctx, case)
    if case.get("bare_register"):
        return replay_bare(ctx, case)
    drive.replay_dsl(ctx, case, QUIRKS, classify, allow_any_order_defs=True)
