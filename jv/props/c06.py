"""C06 - $deref matches exactly the memory operand objdump prints as k(a,b,c)."""
import re

from jv import asmgen, objd, real, refline, rulegen as RG

LEVEL = "exploration"
RULE = ("Instructions assembled by `as` from templates (all 8 presence combinations of index/scale/displacement with a base, "
        "16 base/index registers, scales 1/2/4/8, displacements 0/small/large/negative, memory operand at position 0/1/2, "
        "64- and 32-bit) and printed by the real objdump; each printed line alone is the listing. For its operand T at "
        "position p a $deref item D is derived (positive: D's components = T's, spelled with/without '%', with/without '0x', "
        "int or string scalars, fields in any order) and edited by one component (other register incl. suffix/prefix names "
        "ax vs %rax, other scale, 0x8 vs 0x18/0x80, component added / dropped, D applied to a register or immediate operand). "
        "35 % of the rules carry a config block with the full-match options (which concern names, not $deref), 12 % of the listings have CRLF line ends. "
        "Oracle: real verdict == 'D's present components equal the components of the ORIGINAL objdump text of T' "
        "(R-line mem_components, so the parser's [a+b*c+k] rewriting and the compiler's bracket regex are checked end to end). "
        "Non-trivial = positive, or a one-component edit of a positive; distinct = (D, T, position).")
FLOOR = {"quick": 400, "thorough": 5000}
ANCHOR_HINTS = ["deref_classes", "deref.py", "asm_manual_parser_w_regex", "ast_builder"]
REQUIRED_EVENTS = ["deref_cases_judged"]


def strip_pct(v):
    v = str(v)
    return v[1:] if v.startswith("%") else v


def const_eq(d, t):
    d = str(d)
    if d == t:
        return True
    neg = d.startswith("-")
    body = d[1:] if neg else d
    return ("-" if neg else "") + "0x" + body == t


def expected(D: dict, att: str) -> bool:
    comp = refline.mem_components(att)
    if comp is None:
        return False
    k, a, b, c = comp
    if a is None or strip_pct(D["main_reg"]) != a[1:]:
        return False
    for f, got, is_reg in (("register_multiplier", b, True), ("constant_multiplier", c, False), ("constant_offset", k, False)):
        if f in D:
            if got is None:
                return False
            if is_reg and strip_pct(D[f]) != got[1:]:
                return False
            if not is_reg and not const_eq(D[f], got):
                return False
        elif got is not None:
            return False
    return True


def spell_reg(rng, r):
    return r if rng.random() < 0.5 else r[1:]


def spell_const(rng, v):
    r = rng.random()
    neg = v.startswith("-")
    body = v[1:] if neg else v
    bare = body[2:] if body.startswith("0x") else body
    if r < 0.4:
        return v
    if r < 0.75:
        return ("-" if neg else "") + bare
    if re.fullmatch(r"[1-9][0-9]*", bare) and not neg:
        return int(bare)
    return v


def derive(rng, att):
    k, a, b, c = refline.mem_components(att)
    D = {"main_reg": spell_reg(rng, a)}
    if k is not None:
        D["constant_offset"] = spell_const(rng, k)
    if b is not None:
        D["register_multiplier"] = spell_reg(rng, b)
    if c is not None:
        D["constant_multiplier"] = spell_const(rng, c)
    return D


OTHER_REGS = ["%rax", "%rbx", "%rcx", "%rsp", "%rbp", "%r8", "%r9", "%r12", "%r13", "%eax", "%ebx", "%esi", "ax", "bx", "r1", "%r1"]


def edit(rng, D, att):
    """One-component edit; returns (D', description)."""
    E = dict(D)
    choices = ["reg", "scale", "disp", "drop", "add", "affix", "swap_roles", "alias"]
    for _ in range(8):
        e = rng.choice(choices)
        if e == "alias" and set(E) == {"main_reg", "constant_offset"}:
            E["constant_multiplier"] = E.pop("constant_offset")
            return E, "displacement written as constant_multiplier"
        if e == "alias" and set(E) == {"main_reg", "register_multiplier", "constant_multiplier"} :
            E["constant_offset"] = E.pop("register_multiplier")
            return E, "index written as constant_offset"
        if e == "reg":
            f = rng.choice([x for x in ("main_reg", "register_multiplier") if x in E])
            E[f] = rng.choice(OTHER_REGS)
            return E, f"other {f}"
        if e == "scale" and "constant_multiplier" in E:
            E["constant_multiplier"] = rng.choice(["1", "2", "4", "8", 2, 4, 8, "0x4"])
            return E, "other scale"
        if e == "disp" and "constant_offset" in E:
            v = str(E["constant_offset"])
            E["constant_offset"] = rng.choice([v + "0", v + "8", v[:-1] if len(v.lstrip("-0x")) > 1 else v + "1", "-" + v.lstrip("-"), "0x" + v if not v.startswith(("0x", "-")) else v[2:] + "1"])
            return E, "other displacement"
        if e == "drop":
            opt = [x for x in ("constant_offset", "register_multiplier", "constant_multiplier") if x in E]
            if opt:
                f = rng.choice(opt)
                del E[f]
                return E, f"drop {f}"
        if e == "add":
            opt = [x for x in ("constant_offset", "register_multiplier", "constant_multiplier") if x not in E]
            if opt:
                f = rng.choice(opt)
                E[f] = {"constant_offset": rng.choice(["0x8", "8", "0x0", 0]), "register_multiplier": rng.choice(OTHER_REGS[:6]),
                        "constant_multiplier": rng.choice(["1", 4, "8"])}[f]
                return E, f"add {f}"
        if e == "affix":
            f = rng.choice([x for x in ("main_reg", "register_multiplier") if x in E])
            v = strip_pct(E[f])
            E[f] = rng.choice([v[1:], v + "d", "%" + v[1:], v[:-1]]) if len(v) > 1 else v + "x"
            return E, f"{f} prefix/suffix name"
        if e == "swap_roles" and "register_multiplier" in E:
            E["main_reg"], E["register_multiplier"] = E["register_multiplier"], E["main_reg"]
            return E, "base/index swapped"
    return None


def build_rule(rng, ri, p, D):
    ops = []
    whole = True
    for q in range(p):
        f = ri.ops_norm[q]
        if f is not None and RG.clean(f):
            ops.append(f)
        else:
            toks = RG.tokens_of(f or "")
            if not toks:
                return None
            ops.append(toks[0])
            whole = False
    # the full-match options concern names, not $deref: the verdict must be the same under every setting
    cfg = {}
    if rng.random() < 0.35:
        cfg = {"mnemonics-full-match": rng.random() < 0.6, "operands-full-match": whole and rng.random() < 0.7}
    items = list(D.items())
    rng.shuffle(items)
    node = {"$deref": dict(items)}
    r5 = rng.random()
    if r5 < 0.08:
        node["$deref"]["times"] = rng.choice([1, {"min": 1, "max": 1}])      # an explicit "exactly once", written inside the mapping
    elif r5 < 0.16:
        node["times"] = rng.choice([1, {"min": 1, "max": 1}, {"max": 1}])   # ... or beside it
    ops.append(node)
    doc = {"config": cfg} if cfg else {}
    doc["pattern"] = [{ri.parsed.mnemonic: ops}]
    text = real.dump_rule(doc)
    if rng.random() < 0.15:
        # a hand-written rule may leave a hexadecimal constant unquoted: YAML then reads a number; for one hex digit below a (0x8, -0x8)
        # the number's decimal text is the same digit, so the rule means the same
        text2 = re.sub(r"(?m)^(\s+constant_(?:offset|multiplier): )'(-?)0x([0-9])'$", r"\g<1>\g<2>0x\3", text)
        if text2 != text:
            return text2
    return text


def judge(ctx, ws, ri, p, D, desc, base_positive):
    att = ri.ops_att[p]
    rule = build_rule(ctx.rng, ri, p, D)
    if rule is None:
        return
    # the expectation is computed from the rule AS WRITTEN (an unquoted 0x4 is the number 4 to YAML, a quoted '0x4' is that text)
    import yaml as _yaml
    written = list(_yaml.safe_load(rule)["pattern"][0].values())[0][-1]["$deref"]
    D = {k: v for k, v in written.items() if k != "times"}
    want = expected(D, att)
    eol = "\r\n" if ctx.rng.random() < 0.12 else "\n"       # a listing saved with CRLF line ends holds the same operand
    lp = ws.write("one.s", (ri.raw + eol).encode())
    rp = ws.write("rule.yaml", rule)
    r = real.match(rp, lp, ret="bool")
    ctx.ran()
    ctx.event("deref_cases_judged")
    if "config:" in rule:
        ctx.event("deref_cases_with_full_match_options")
    if eol != "\n":
        ctx.event("deref_cases_on_crlf_listing")
    case = {"rule": rule, "listing": ri.raw + eol, "operand": att, "position": p, "expected": want, "desc": desc}
    ctx.case((sorted((k, str(v)) for k, v in D.items()), att, p), base_positive or want,
             stratum=desc.split(":")[0], outcome="found" if (r[0] == "ok" and r[1]) else ("exc" if r[0] != "ok" else "not found"))
    if want:
        ctx.sample("positive", case)
    elif base_positive:
        ctx.sample("near-miss:" + desc.split(" ")[0], case)
    if r[0] != "ok":
        if "constant_multiplier" in D and "register_multiplier" not in D:
            # a scale without an index register names no AT&T operand: rejecting it loudly is as faithful as never matching
            ctx.event("scale_without_index_rejected")
            return
        ctx.disagreement(case, f"real raised {r[1]}: {r[2]} for a well-formed $deref")
        return
    if bool(r[1]) != want:
        ctx.disagreement(case, f"$deref {D} on operand {att!r} (position {p}) of line {ri.raw!r}: real={r[1]} expected={want} | regex={r[2]}",
                         classify(D, att))


def classify(D, att):
    """Open finding: a constant_multiplier given without register_multiplier is compiled as '+c' and
    therefore read as a displacement. Attributed only if that reading reproduces the real verdict."""
    if "constant_multiplier" in D and "register_multiplier" not in D and "constant_offset" not in D:
        Q = {k: v for k, v in D.items() if k != "constant_multiplier"}
        Q["constant_offset"] = D["constant_multiplier"]
        if expected(Q, att) and not expected(D, att):
            return "deref_scale_without_index_read_as_displacement"
    return None


def run_shard(ctx):
    ws = real.Workspace()
    rng = ctx.rng
    budget = ctx.share(5000, 400000)
    done = 0
    while done < budget:
        bits = rng.choice([64, 64, 32])
        if done == 0:
            # every shard starts with a batch of 16-bit addressing (0x67-prefixed 32-bit code): base+index without scale, single 16-bit base
            bits = 32
            lines = []
            for _ in range(40):
                b16, i16 = rng.choice(["%bx", "%bp"]), rng.choice(["%si", "%di"])
                d16 = rng.choice(["", "0x10", "-0x4", "0x7f", "0x100"])
                m16 = rng.choice([f"{d16}({b16},{i16})", f"{d16}({b16},{i16})", f"{d16 or '0x8'}({rng.choice(['%bx', '%si', '%di', '%bp'])})", "(%bx)"])
                lines.append(rng.choice([f"mov {m16},%eax", f"mov %eax,{m16}", f"lea {m16},%ecx", f"addl $0x1,{m16}", f"mov {m16},%ax"]))
            r = asmgen.assemble(ws, lines, bits)
        elif rng.random() < 0.25:
            # disassembly of random / biased bytes: memory operands in encodings a compiler rarely emits (%riz / %eiz as index, redundant
            # SIB bytes, 32-bit registers in 64-bit code, large displacements)
            blob, secs, bits = objd.random_object(rng, size=(300, 1500))
            rc, out, _ = objd.disassemble(ws.write("o.bin", blob))
            if rc != 0:
                continue
            ctx.event("random_object_listings_used")
            r = (None, out)
        else:
            lines = [asmgen.template(rng, bits) for _ in range(120)] + (list(asmgen.STACKED_DATA16) if bits == 64 else [])
            r = asmgen.assemble(ws, lines, bits)
        if r is None:
            ctx.inconc("as refused a template batch")
            continue
        rinsts, _ = refline.read_listing(r[1])
        segs = [(ri, p, o) for ri in rinsts if not ri.parsed.prefixes and "," not in ri.parsed.mnemonic
                for p, o in enumerate(ri.ops_att) if re.match(r"^%[a-z]s:", o) and "(" in o]
        # lines whose memory operand is in a judged form; the operands in FRONT of it must be nameable (plain forms), those after it are free
        two_reg = [ri for ri in rinsts if ri.ops_att and not ri.parsed.prefixes and ri.parsed.mnemonic.isalnum() and not ri.plain
                   and any(refline.RE_MEM2.match(o) for o in ri.ops_att)
                   and all(x is not None for o, x in zip(ri.ops_att, ri.ops_norm) if not refline.RE_MEM2.match(o))]
        for ri in two_reg:
            ctx.event("two_register_16_bit_operands_seen")
        # lines that carry nothing but operand-size prefixes in front of the mnemonic (long NOPs: `data16 data16 nopw 0x0(%rax,%rax,1)`): the
        # memory operand is an operand like any other
        d16 = [ri for ri in rinsts if ri.parsed.prefixes and all(x == "data16" for x in ri.parsed.prefixes) and ri.ops_att and ri.parsed.mnemonic.isalnum()
               and all(x is not None for x in ri.ops_norm)]
        for ri in d16:
            ctx.event("data16_prefixed_memory_operand_lines_seen")
        rinsts = d16 + [ri for ri in rinsts if ri.plain and ri.ops_att] + two_reg
        # operands with a segment override carry an extra component: a $deref built from the part after the override must not match
        for ri, p, o in segs[:6]:
            inner = o.split(":", 1)[1]
            if refline.mem_components(inner) and refline.mem_components(inner)[1] and all(
                    x is not None and RG.clean(x) for x in ri.ops_norm[:p]):
                judge(ctx, ws, ri, p, derive(rng, inner), "segment-override operand", True)
                done += 1
        mems = [(ri, p) for ri in rinsts for p, o in enumerate(ri.ops_att) if refline.mem_components(o) and refline.mem_components(o)[1]]
        if not mems:
            continue
        for ri, p in mems:
            if done >= budget:
                break
            D = derive(rng, ri.ops_att[p])
            judge(ctx, ws, ri, p, D, "positive", True)
            done += 1
            for _ in range(3):
                e = edit(rng, D, ri.ops_att[p])
                if e:
                    judge(ctx, ws, ri, p, e[0], "edit: " + e[1], True)
                    done += 1
            # D on an operand of another shape (register / immediate) at some position of another instruction
            other = rng.choice(rinsts)
            q = rng.randrange(len(other.ops_att))
            if not refline.mem_components(other.ops_att[q]):
                judge(ctx, ws, other, q, D, "other-shape operand", True)
                done += 1
            elif other is not ri:
                judge(ctx, ws, other, q, D, "other memory operand", True)
                done += 1


def replay(ctx, case):
    ws = real.Workspace()
    import yaml
    doc = yaml.safe_load(case["rule"])
    ops = list(doc["pattern"][0].values())[0]
    D = {k: v for k, v in ops[-1]["$deref"].items() if k != "times"}
    lp = ws.write("one.s", case["listing"].encode())
    rp = ws.write("rule.yaml", case["rule"])
    r = real.match(rp, lp, ret="bool")
    ctx.ran()
    want = expected(D, case["operand"])
    if r[0] != "ok" or bool(r[1]) != want:
        ctx.disagreement(case, f"real={r[:2]} expected={want}", classify(D, case["operand"]))
