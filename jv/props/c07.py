"""C07 - matches are instruction-aligned and report genuine addresses."""
import os

import yaml

from jv import drive, dsl, model as M, real, rulegen as RG

LEVEL = "exploration"
RULE = ("S-syn listings (lower-case hex addresses incl. add0/dec0-style ones, mnemonics add/dec/fadd) x rules with every "
        "operator kind in leading position, operand items in excess of the instruction's operand count, and the shipped "
        "tests/macros/jasm_macros.yaml @any as mnemonic / operand (0-4 of them) / $deref value, and immediates named in the "
        "'<hex>h' spelling; a probe stratum of three-/four-operand instructions with an operand-level $not before further operand items "
        "(judged strictly against R-dsl). Monitors per execution: "
        "(a) every full-text hit of all-matches and first-match mode is the concatenation of whole consecutive records of "
        "the stream observed in the same run (strict); (b) address-only mode reports, element by element, the address of the "
        "first covered record (strict); (c) for rules without times / different-length alternatives the hit covers exactly "
        "one record per instruction item (strict); (d) the hit window is an R-dsl window with @any = 'non-empty field' "
        "(differential; open finding F7 is attributed with the quirk model). Non-trivial = at least one hit was located; "
        "distinct = (rule, listing). "
        "Operand span cells: one-item rules with $deref names / degenerate field combinations on instructions with two memory operands (every hit is one record, nothing reaches into the next operand); a parser disagreement on a synthetic listing is turned into a two-item rule around the missing line.")
FLOOR = {"quick": 300, "thorough": 4000}
ANCHOR_HINTS = ["global_definitions", "mnemonic_and_operand", "node_branch_root", "consumer", "capture_group_instruction"]
REQUIRED_EVENTS = ["hits_aligned", "addresses_checked"]
QUIRKS = ["any_macro_crosses_record"]
MACROS = os.path.join(real.JASM_REPO, "tests", "macros", "jasm_macros.yaml")


def feat(rng):
    r = rng.random()
    if r < 0.45:
        return RG.Feat(operands=0.85, any=0.35, excess_ops=0.35, deref=0.4, groups=0.15, nots=0.1, hexh=0.35,
                       times_item=0.15, max_depth=1, max_spine=rng.choice([1, 2, 3]))
    return RG.Feat(operands=0.7, groups=0.3, nots=0.2, onots=0.1, ogroups=0.15, icaps=0.1, ocaps=0.25, times_item=0.15,
                   group_times=0.2, excess_ops=0.35, max_depth=2, max_spine=rng.choice([1, 2, 3]))


def fixed_len(node):
    """Number of records every match of an instruction-level node covers, or None if it varies."""
    if (node.lo, node.hi) != (1, 1):
        return None
    if node.kind in ("item", "icap"):
        return 1
    if node.name == "not":
        return 1
    lens = [fixed_len(c) for c in node.children]
    if any(x is None for x in lens):
        return None
    if node.name in ("and", "any"):
        return sum(lens)
    return lens[0] if len(set(lens)) == 1 else None


def monitor(driver, doc, text, prep, o):
    ctx = driver.ctx
    if o.status != "ok":
        return
    case = dsl.case_doc(text, prep, "c07")
    strict = bool(getattr(driver, "strict", False))       # probe strata whose elements are wildcard-like ($not stands for one operand)
    case["strict"] = strict
    import re
    has_any = "@any" in text or re.search(r"(?m)^\s*- '?[0-9a-f]+h'?$", text) is not None    # wildcard-like elements: judged against R-dsl here
    if "" in o.hits:
        # the rule can match the empty sequence (every element optional): an empty hit covers no instruction, so there
        # is no address to judge; such rules are covered by C12's mode-agreement relations
        ctx.event("skipped_rule_that_matches_empty")
        return
    # (a) alignment of all-matches hits
    for n, w in enumerate(o.real_windows):
        if w is None:
            ctx.disagreement(case, f"hit {n} of all-matches mode is not a whole number of consecutive records: {o.hits[n][:160]!r} | regex={o.regex[:400]}")
            return
    ctx.event("hits_aligned", len(o.real_windows))
    ctx.case(("c07", text, prep.expect), bool(o.real_windows))
    rp = driver.ws.path("rule.yaml")
    # (b) address-only, both search modes; first-match full text
    ra = real.match(rp, prep.path, ret="list", search="all", only_addr=True, macros=driver.macros)
    rf = real.match(rp, prep.path, ret="list", search="first", only_addr=False, macros=driver.macros)
    rfa = real.match(rp, prep.path, ret="list", search="first", only_addr=True, macros=driver.macros)
    ctx.ran(3)
    if ra[0] != "ok" or rf[0] != "ok" or rfa[0] != "ok":
        ctx.disagreement(case, f"a mode raised although all-matches/full-text succeeded: {ra[:2]} {rf[:2]} {rfa[:2]}")
        return
    want = [prep.expect[i][0] for i, _ in o.real_windows]
    input_addrs = {a for a, _, _ in prep.expect}
    if list(ra[1]) != want:
        ctx.disagreement(case, f"address-only all-matches {list(ra[1])[:6]} != first-record addresses of the hits {want[:6]}")
        return
    if any(a not in input_addrs for a in ra[1]):
        ctx.disagreement(case, f"reported address does not occur in the input: {ra[1][:6]}")
        return
    wf = dsl.locate(prep, list(rf[1]))
    if any(w is None for w in wf):
        ctx.disagreement(case, f"first-match hit is not record aligned: {rf[1]}")
        return
    if list(rfa[1]) != [prep.expect[i][0] for i, _ in wf]:
        ctx.disagreement(case, f"first-match address-only {rfa[1]} != address of the first covered record {wf}")
        return
    ctx.event("addresses_checked", len(ra[1]) + len(rfa[1]))
    # (c) one record per item for fixed-length rules
    try:
        root = M.parse_rule(doc)
    except M.Unsupported:
        ctx.event("differential_skipped:unsupported form")
        return
    fl = fixed_len(root)
    if fl is not None and not has_any:
        for w in o.real_windows:
            if w[1] - w[0] != fl:
                ctx.disagreement(case, f"rule has {fl} instruction items but a hit covers records {w} | regex={o.regex[:400]}")
                return
        ctx.event("fixed_length_checked", len(o.real_windows))
    # (d) differential against R-dsl (strict for @any rules too; F7 attributed by quirk)
    if o.model_unsupported is not None:
        ctx.event("differential_skipped:" + o.model_unsupported[:30])
    elif o.verdict != "held":
        if has_any or strict:
            key = dsl.attribute(yaml.safe_load(text), prep, o, QUIRKS)
            ctx.disagreement(case, o.why + f" | regex={o.regex[:500]}", key)
        else:
            ctx.event("model_disagreement_left_to_C01_C05")


def wildcard_position_stratum(ctx, d, n):
    """Wildcard-like operand items ('<hex>h' literals, @any) written at an EARLIER position than the operand that
    contains the constant: a correct element stays inside its own operand, so the instruction must not match through it."""
    import re
    rng = ctx.rng
    done = 0
    while done < n:
        prep = d.new_listing(rng.choice(["mixed", "tiny", "dups"]))
        cands = []
        for idx, (_, mnem, ops) in enumerate(prep.expect):
            for p, f in enumerate(ops):
                m = re.search(r"0x([0-9a-f]+)", f)
                if m and p >= 1 and m.group(1) not in ("a", "b", "c", "d"):
                    cands.append((idx, mnem, p, m.group(1) + "h"))
        rng.shuffle(cands)
        for idx, mnem, p, name in cands[:6]:
            q = rng.randrange(0, p)                      # earlier position than the operand holding the constant
            ops = ["@any"] * q + [name]
            if rng.random() < 0.3:
                ops.append("@any")
            d.run_pattern([{mnem: ops}], "base", True)
            done += 1
        if not cands:
            done += 1


SPAN_ROWS = [("vfoo", ["0x8(%rax)", "0x10(%rbx)"]), ("mov", ["(%rax)", "%rbx"]), ("add", ["$0x8", "%rcx"]), ("lea", ["(%rcx,%rdx,8)", "%rsi"]),
             ("lea", ["0x10(%rbx)", "%rax"]), ("vbar", ["(%rsi)", "(%rdi)"]), ("vbar", ["(%rdi)", "(%rsi)"]), ("mov", ["0x8(%rax)", "%rdx"]),
             ("mov", ["%rdx", "0x18(%rax,%rcx,4)"]), ("mov", ["0x10(%rax)", "%ebx"]), ("add", ["%ebx", "%ecx"]), ("lea", ["(%rcx,%rdx,8)", "%rsi"]),
             ("mov", ["(%rax,%rdi,8)", "%edx"]), ("imul", ["$0x3", "%ebx", "%ecx"]), ("vqux", ["%r8", "%r9", "%r10", "%r11"]), ("ret", [])]
# (one-item rule, found?) - what "found" needs in the negative cells is an element reaching from one operand into the next one
SPAN_CELLS = [({"vfoo": [{"$deref": {"main_reg": "&p", "constant_offset": "0x10"}}]}, False), ({"vfoo": [{"$deref": {"main_reg": "&p", "constant_offset": "0x8"}}]}, True),
              ({"vfoo": [{"$deref": {"main_reg": "rax", "constant_offset": "&k"}}, {"$deref": {"main_reg": "rbx", "constant_offset": "&j"}}]}, True),
              ({"vfoo": [{"$deref": {"main_reg": "rax", "constant_offset": "&k"}}, {"$deref": {"main_reg": "rax", "constant_offset": "&j"}}]}, False),
              ({"vbar": [{"$deref": {"main_reg": "&p"}}, {"$deref": {"main_reg": "rdi"}}]}, True), ({"vbar": [{"$deref": {"main_reg": "&p"}}, {"$deref": {"main_reg": "&p"}}]}, False),
              ({"mov": [{"$deref": {"main_reg": "&p", "constant_offset": "0x8"}}, "%rdx"]}, True), ({"mov": ["%rdx", {"$deref": {"main_reg": "&b", "register_multiplier": "&i", "constant_multiplier": 4, "constant_offset": "&k"}}]}, True),
              ({"mov": [{"$deref": {"main_reg": "&b", "register_multiplier": "rcx", "constant_multiplier": 4, "constant_offset": "0x18"}}]}, False),
              # a name stands for ONE operand also when the item after it would fit a later operand
              ({"imul": ["&first", "%ecx"]}, False), ({"imul": ["&first", "%ebx"]}, True), ({"imul": ["&first", "&second", "%ecx"]}, True), ({"imul": ["&first", "&first"]}, False),
              ({"vqux": ["&a", "%r10"]}, False), ({"vqux": ["&a", "&b", "%r11"]}, False), ({"vqux": ["%r8", "&b", "&c", "%r11"]}, True), ({"vqux": ["&a", "%r9", "&c", "&d"]}, True),
              ({"vqux": ["&genreg-x", "%r9"]}, False),
              # degenerate shapes (their reading is C06's subject): whatever they match is one record of one instruction
              ({"mov": [{"$deref": {"main_reg": "rax", "constant_multiplier": 8}}]}, None), ({"mov": [{"$deref": {"constant_multiplier": 8}}]}, None),
              ({"lea": [{"$deref": {"register_multiplier": "rdx"}}]}, None), ({"mov": [{"$deref": {"main_reg": "&p", "constant_multiplier": 8}}]}, None),
              ({"mov": [{"$deref": {"constant_offset": "&k", "constant_multiplier": 4}}]}, None), ({"add": [{"$deref": {"main_reg": "rcx", "constant_multiplier": 8}}]}, None),
              ({"mov": [{"$deref": {"main_reg": "rax", "constant_multiplier": 4, "constant_offset": "0x18"}}]}, None), ({"mov": [{"$deref": {"main_reg": "%rax", "constant_multiplier": "0x8"}}]}, None)]


def operand_span_stratum(ctx, ws):
    """One-item rules with $deref components (names, literals, degenerate field combinations) on instructions with two memory
    operands: every hit is exactly one record, and a cell that could only be found by an element reaching across `],[` into the
    next operand (or into the next instruction) is not found. By construction, identical at every seed."""
    from jv import listing as L
    insts, addr = [], 0x401000
    for m, ops in SPAN_ROWS:
        insts.append(L.SInst(addr, m, list(ops), None, None, 4))
        addr += 4
    text = L.render(insts, ctx.rng, labels=False)
    lp = ws.write("span.s", text)
    for item, want in SPAN_CELLS:
        rule = real.dump_rule({"pattern": [item]})
        res = real.match(ws.write("span.yaml", rule), lp, ret="list", search="all", only_addr=False)
        ctx.ran()
        if res[0] != "ok":
            ctx.event("operand_span_cells_rejected_by_the_compiler")
            continue
        ctx.event("operand_span_cells")
        ctx.case(("operand-span", rule), bool(res[1]), stratum="operand span cells", outcome="found" if res[1] else "not found")
        case = {"operand_span": True, "rule": rule, "listing": text, "want": want}
        mn = next(iter(item))
        bad = [h for h in res[1] if h.count("|") != 1 or not h.endswith("|") or "::" + mn + "," not in h.split("|")[0]]
        if bad:
            ctx.disagreement(case, f"a one-item rule on `{mn}` reports a hit that is not one `{mn}` record: {bad[0][:200]!r} | regex={str(res[2])[:400]}")
        elif want is not None and bool(res[1]) != want:
            ctx.disagreement(case, f"one-item rule {item}: expected {'found' if want else 'not found'} (each operand item stands for ONE operand), got {str(res[1])[:200]} | regex={str(res[2])[:400]}")


def replay_span(ctx, case):
    ws = real.Workspace()
    res = real.match(ws.write("span.yaml", case["rule"]), ws.write("span.s", case["listing"]), ret="list", search="all", only_addr=False)
    ctx.ran()
    if res[0] != "ok":
        return
    bad = [h for h in res[1] if h.count("|") != 1]
    if bad or (case.get("want") is not None and bool(res[1]) != case["want"]):
        ctx.disagreement(case, f"operand span cell: hits {str(res[1])[:200]}, expected found={case.get('want')} and one record per hit")


def consecutive_in_listing(d, prep):
    """The stream JASM built differs from the instruction lines of the synthetic listing (never observed on the pinned tree). Judged at
    the level of this property: a two-item rule made of the instructions before and after the first differing line is reported
    exactly where the LISTING holds those two instructions one after the other."""
    from jv import stream as S
    ctx = d.ctx
    try:
        dec = S.decode(prep.stream) if prep.stream is not None else []
    except S.StreamError:
        return
    n = next((i for i, (a, b) in enumerate(zip(dec, prep.expect)) if a != b), min(len(dec), len(prep.expect)))
    if not 1 <= n < len(prep.expect) - 1:
        return

    def item(k):
        _, m, ops = prep.expect[k]
        names = [o for o in ops if RG.clean(o)]
        return ({m: names} if names and len(names) == len(ops) else m), m, (list(ops) if names and len(names) == len(ops) else None)
    (i1, m1, o1), (i2, m2, o2) = item(n - 1), item(n + 1)
    text = real.dump_rule({"config": {"mnemonics-full-match": True, "operands-full-match": True}, "pattern": [i1, i2]})

    def is_(k, m, o):
        return prep.expect[k][1] == m and (o is None or list(prep.expect[k][2][:len(o)]) == o)
    want = [prep.expect[k][0] for k in range(len(prep.expect) - 1) if is_(k, m1, o1) and is_(k + 1, m2, o2)]
    r = real.match(d.ws.write("pd.yaml", text), prep.path, ret="list", search="all", only_addr=True)
    ctx.ran()
    ctx.event("two_item_rules_around_a_line_the_stream_lacks")
    if r[0] == "ok" and list(r[1]) != want:
        ctx.disagreement({"rule": text, "listing": prep.text, "sinsts": [[x.addr, x.mnem, x.ops, x.annotation, x.comment, x.nbytes] for x in prep.sinsts],
                          "desc": "not-consecutive", "not_consecutive": want},
                         f"[{i1}, {i2}] is reported at {str(r[1])[:120]}; the listing holds these two instructions one after the other at {want[:6]} only ({prep.why})")


def run_shard(ctx):
    d = drive.Driver(ctx, feat, flags="random", styles=("mixed", "runs", "dups", "tiny", "multisec", "kernel"), judge_model=False, extra=monitor,
                     interesting=None)
    d.macros = [MACROS]
    d.on_parser_disagreement = consecutive_in_listing
    d.loop(2500, 120000)
    wildcard_position_stratum(ctx, d, ctx.share(400, 16000))
    from jv import strata
    if ctx.shard % 4 == 0:
        strata.same_stat_probe(ctx, d.ws, 3)
    if ctx.shard % 4 == 1:
        operand_span_stratum(ctx, d.ws)
    d.strict = True
    strata.operand_not_stratum(ctx, d, ctx.share(160, 6000))       # "no element spans two operands": $not followed by further operand items
    d.strict = False
    # hits of several hundred instructions / straddling index boundaries of long listings: the reported text is still whole records
    from jv.props import c11
    c11.long_variable_stratum(ctx, d.ws, ctx.share(16, 300))


def replay(ctx, case):
    if case.get("operand_span"):
        return replay_span(ctx, case)
    if case.get("same_stat"):
        from jv import strata
        return strata.same_stat_probe(ctx, real.Workspace(), 8, binary=bool(case.get("binary")))
    ws = real.Workspace()
    prep = dsl.prep_from_case(ws, case)
    if case.get("desc") == "not-consecutive":
        r = real.match(ws.write("pd.yaml", case["rule"]), prep.path, ret="list", search="all", only_addr=True)
        ctx.ran()
        if r[0] == "ok" and list(r[1]) != case["not_consecutive"]:
            ctx.disagreement(case, f"reported at {str(r[1])[:120]}; consecutive in the listing at {case['not_consecutive'][:6]} only")
        return
    if not prep.verify(ws):
        ctx.inconc("parser disagreement: " + prep.why)
        return

    class D:
        pass
    d = D()
    d.ctx, d.ws, d.macros = ctx, ws, [MACROS]
    d.strict = bool(case.get("strict"))
    o = dsl.evaluate(ws, prep, case["rule"], macros=[MACROS])
    ctx.ran()
    monitor(d, yaml.safe_load(case["rule"]), case["rule"], prep, o)
