"""C08 - every disassembled instruction line yields exactly one stream instruction."""
import os

from jv import objd, real, refline, stream

LEVEL = "exploration"
RULE = ("ELF64/x86-64 and ELF32/i386 objects written by the harness (1-4 executable sections + data sections, optional "
        "symbols; contents uniformly random bytes or bytes biased towards prefixes / ModRM / Jcc-with-hint patterns), "
        "disassembled by the installed objdump -d -M att; that text is fed through the assembly route of MasterOfPuppets "
        "(all_instructions_string) and the decoded stream is compared with R-line, an independent reader of objdump text: "
        "same number of records as instruction lines, same order, same address, mnemonic equal to the line's mnemonic token "
        "(the first token that is not a prefix, alone or with its prefixes; the reading 'first prefix token = mnemonic' is the open "
        "finding prefix_token_read_as_mnemonic); one matcher object reused on a second listing builds the same stream as a fresh one; byte-continuation lines, labels, headers contribute nothing; no "
        "exception. Plus every listing under tests/assembly, and large listings (4 KiB - 2 MiB) whose header length puts every power-of-two byte "
        "offset in turn at a chosen column of an instruction line; every listing is parsed under a randomly chosen logger level (warning/info/debug). Non-trivial/distinct = distinct line shapes (prefixes + "
        "mnemonic + operand-shape signature) that went through both readers. "
        "Also: synthetic listings (demangled, variadic symbols), the same text through a named pipe, hinted-branch mnemonics judged on the record text.")
FLOOR = {"quick": 300, "thorough": 1500}
ANCHOR_HINTS = ["asm_manual_parser_w_regex", "gnu_objdump_parser_manual", "observers", "consumer"]
REQUIRED_EVENTS = ["listings_compared", "block_boundary_listings"]
SHARDS = {"quick": 16, "thorough": 64}


def culprit_lines(ws, text):
    """Find the instruction lines that make the real parser raise, one line at a time."""
    out = []
    for raw in text.split("\n"):
        if refline.classify(raw).kind != "inst":
            continue
        p = ws.write("one.s", raw + "\n")
        r = objd.real_stream(ws, p)
        if r[0] != "ok":
            out.append((raw, r[1], r[2]))
            if len(out) >= 3:
                break
    return out


def classify_line(raw: str):
    """Syntactic class of a line that makes the parser RAISE -> open-finding key (none listed at present)."""
    return None


def failing_run(ctx, ws):
    """An operation that fails on some other listing, run right before a judged listing: nothing of it may reach the next listing's
    stream. Either the rule compiles to an invalid regex (the run fails when the matcher is applied), or an observer raises in the
    middle of the listing (valid_addr_range meets a branch operand that is not an address)."""
    if ctx.rng.random() < 0.5:
        lp = ws.write("other.s", "  401000:\t55                   \tpush   %rbp\n  401001:\tc3                   \tret\n")
        rp = ws.write("badregex.yaml", "pattern:\n  - 'mov('\n")
    else:
        lp = ws.write("other.s", "  401000:\t55                   \tpush   %rbp\n  401001:\t48 89 e5             \tmov    %rsp,%rbp\n"
                                 "  401004:\tff d0                \tcall   rax\n  401006:\tc3                   \tret\n")
        rp = ws.write("badregex.yaml", "config:\n  valid_addr_range:\n    min: '0'\n    max: 'ffffff'\npattern:\n  - push\n")
    r = real.match(rp, lp, ret="bool")
    ctx.event("preceding_failed_runs" if r[0] == "exc" else "preceding_runs_did_not_fail")


def judge_listing(ctx, ws, text, origin, elf_bytes=None, force_reuse=False, level=None, force_range=None):
    # ambient state: the level --info / --debug give jasm's logger never changes what is parsed
    level = level or ctx.rng.choice(["warning"] * 6 + ["info"] + ["debug"] * 3)
    ctx.event("listings_judged_with_log_level_" + level)
    with real.log_level(level):
        return _judge_listing(ctx, ws, text, origin + ("" if level == "warning" else f" [logger at {level}]"), elf_bytes, force_reuse, force_range)


def perturb_lines(rng, text):
    """What other objdump versions / options print on the same instruction rows: blanks after the last token (old binutils pad operand-less
    mnemonics), symbol annotations of any length (mangled C++ names are printed in full), long trailing comments."""
    import re
    out = []
    for line in text.split("\n"):
        if refline.classify(line).kind == "inst" and rng.random() < 0.15:
            r = rng.random()
            if r < 0.4:
                line = line + " " * rng.randint(1, 9)
            elif r < 0.7 and re.search(r" <[^<>]*>$", line):
                line = re.sub(r" <[^<>]*>$", " <_ZN" + "x" * rng.choice([200, 990, 1010, 1300, 6000]) + "E+0x10>", line)
            elif "#" not in line and "<" not in line and len(line.split("\t")) >= 3 and " " in line.split("\t")[2].strip():
                line = line + "        # " + "c" * rng.choice([100, 1100, 3000])
        out.append(line)
    return "\n".join(out)


def _judge_listing(ctx, ws, text, origin, elf_bytes=None, force_reuse=False, force_range=None):
    if ctx.rng.random() < 0.3 and len(text) < 300000 and not origin.startswith("replay"):
        text = perturb_lines(ctx.rng, text)
        ctx.event("listings_with_padded_or_very_long_rows")
    if ctx.rng.random() < 0.25:
        failing_run(ctx, ws)
    eol = ctx.rng.choice(["\n"] * 12 + ["\r\n", "\r\n", "\r"])
    if eol != "\n" and "\r" not in text:
        ctx.event("listings_saved_with_other_line_endings")
        origin += " [CRLF]" if eol == "\r\n" else " [CR]"
        p = ws.write("in.s", text.replace("\n", eol).encode())
    else:
        p = ws.write("in.s", text)
    r = objd.real_stream(ws, p)
    ctx.ran()
    rinsts, stats = refline.read_listing(text)
    for ri in rinsts:
        ctx.case(objd.line_shape(ri), True)
    ctx.event("instruction_lines", stats["inst"])
    ctx.event("continuation_lines", stats["cont"])
    ctx.event("other_lines", stats["other"])
    case = {"origin": origin, "listing": text if len(text) < 200000 else text[:200000]}
    if r[0] != "ok":
        bad = culprit_lines(ws, text)
        for raw, en, em in bad[:1]:
            ctx.disagreement({"origin": origin, "listing": raw + "\n"}, f"parser raised {en}: {em} on line {raw!r}", classify_line(raw))
        if not bad:
            ctx.disagreement(case, f"parser raised {r[1]}: {r[2]} (no single line reproduces it)")
        return
    probs, rinsts, dec = objd.compare_stream(r[1], text)
    ctx.event("listings_compared")
    unknown = False
    for pr in probs:
        kind, n, msg = pr[:3]
        key = pr[3] if len(pr) > 3 else None
        small = {"origin": origin, "listing": "\n".join(x.raw for x in rinsts[max(0, n - 2):n + 3]) + "\n"} if kind != "undecodable" and n >= 0 else case
        if key:
            small = {"origin": origin, "listing": rinsts[n].raw + "\n"}
        ctx.disagreement(small, f"{kind}: {msg}", key)
        unknown = unknown or key is None
    if unknown:
        return
    # one matcher object used on ANOTHER listing first: the stream built for this listing afterwards is the same
    if (force_reuse or ctx.rng.random() < 0.3) and len(text) < 400000:
        other = ws.write("prev.s", "  401000:\t55                   \tpush   %rbp\n  401001:\t48 89 e5             \tmov    %rsp,%rbp\n  401004:\tc3                   \tret\n")
        rs = real.match_sequence(ws.write("_stream_rule.yaml", "pattern:\n  - zzzzzz\n"), [other, p], ret="stream")
        ctx.ran(2)
        ctx.event("matcher_reused_on_second_listing")
        if rs[0] != "ok" or rs[1][1] != r[1]:
            got = rs[1][1] if rs[0] == "ok" else str(rs[1:])
            ctx.disagreement({"origin": origin, "reuse": True, "listing": text if len(text) < 200000 else text[:200000]},
                             f"one MasterOfPuppets object used on a 3-line listing and then on this one builds a stream of {got.count('|')} records; "
                             f"a fresh object builds {r[1].count('|')} ({got[:80]!r} vs {r[1][:80]!r})")
            return
    # the same listing under a rule that configures valid_addr_range (adds an observer): lines -> records must be unchanged
    lo, hi = force_range or ctx.rng.choice([("0", "ffffffffffffffff"), ("0x400000", "0x4fffff"), ("1000", "1000")])
    r2 = objd.real_stream(ws, p, rule_text=f"config:\n  valid_addr_range:\n    min: '{lo}'\n    max: '{hi}'\npattern:\n  - zzzzzz\n")
    ctx.ran()
    if r2[0] != "ok":
        # an indirect/odd operand of a jump mnemonic may not parse as an address: judged by C18, not here
        ctx.event("range_run_raised:" + r2[1])
    else:
        probs2, _, dec2 = objd.compare_stream(r2[1], text)
        ctx.event("listings_compared_with_range_observer")
        probs2 = [q for q in probs2 if len(q) < 4 or q[3] is None]        # the open finding was reported above already
        if probs2:
            kind, n, msg = probs2[0][:3]
            ctx.disagreement(case if n < 0 else {"origin": origin, "range": [lo, hi], "listing": "\n".join(x.raw for x in rinsts[max(0, n - 3):n + 3]) + "\n"},
                             f"with valid_addr_range configured: {kind}: {msg}")
            return
    ctx.sample("objdump-listing", {"origin": origin, "first_lines": text[:500], "records": len(dec), "first_records": [list(map(str, d)) for d in dec[:3]]})


BLOCKS = [2 ** 20, 2 ** 16, 2 ** 17, 2 ** 18, 2 ** 19, 2 ** 21, 2 ** 15, 2 ** 14, 2 ** 13, 2 ** 12, 10 ** 6, 10 ** 5]


def block_boundary_stratum(ctx, ws, n):
    """Large listings (up to 2 MiB) of fixed-width instruction lines whose header length is chosen so that a byte offset that
    block-wise reading would use (every power of two from 4 KiB to 2 MiB, 10^5, 10^6 - visited in turn) falls at a chosen column
    of an instruction line: inside the leading blanks, the address, the byte column or the mnemonic."""
    rng = ctx.rng
    for i in range(n):
        B = BLOCKS[(ctx.shard + i * ctx.nshards) % len(BLOCKS)]
        col = rng.choice([0, 1, 2, 3, 4, 5, 6, 7, 8, 9, 12, 20, 31, 33])
        body = rng.choice([("90", "nop"), ("c3", "ret"), ("cc", "int3"), ("50", "push   %rax")])
        line = lambda a: f"  {a:x}:\t{body[0]:<21}\t{body[1]}\n"      # noqa: E731
        lw = len(line(0x401000))
        head0 = "\nbig.bin:     file format elf64-x86-64\n\n\nDisassembly of section .text:\n\n0000000000401000 <"
        # header length H with (B - H) % lw == col
        k = 1
        while (B - (len(head0) + k + 3)) % lw != col or (len(head0) + k + 3) > B:
            k += 1
            if k > 3 * lw:
                break
        head = head0 + "f" * k + ">:\n"
        nlines = (B - len(head)) // lw + rng.randint(40, 400)
        text = head + "".join(line(0x401000 + j) for j in range(nlines))
        ctx.event("block_boundary_listings")
        ctx.event("block_boundary_bytes", len(text))
        _judge_listing(ctx, ws, text, f"block-boundary/{B}/col{col}")


def multibyte_boundary_stratum(ctx, ws, n):
    """Listings with non-ASCII text (a symbol or path in UTF-8) laid out so that a byte offset that block-wise reading would use falls in
    the MIDDLE of a multi-byte character: the text is read as it is."""
    for i in range(n):
        B = BLOCKS[(ctx.shard + i * ctx.nshards) % len(BLOCKS)]
        tail = "        # " + "é" * 24 + " <función_ñandú+0x10>"
        line = lambda a: f"  {a:x}:\t50                   \tpush   %rax{tail}\n"      # noqa: E731
        lb = len(line(0x401000).encode())
        run_at = len(f"  {0x401000:x}:\t50                   \tpush   %rax        # ".encode())
        head0 = "\nbig.bin:     file format elf64-x86-64\n\n\nDisassembly of section .text:\n\n0000000000401000 <"
        k = 1
        while (B - (len(head0) + k + 3)) % lb != run_at + 1 + 2 * (i % 8) or (len(head0) + k + 3) > B:
            k += 1
            if k > 3 * lb:
                break
        head = head0 + "f" * k + ">:\n"
        nlines = (B - len(head)) // lb + 60
        text = head + "".join(line(0x401000 + j) for j in range(nlines))
        cut = text.encode()[B - 1:B + 1]
        ctx.event("multibyte_boundary_listings")
        if cut not in ("é".encode(), ):
            ctx.event("multibyte_boundary_not_aligned")
        _judge_listing(ctx, ws, text, f"replay-multibyte-boundary/{B}")


def count_boundary_stratum(ctx, ws, n):
    """Listings with more instructions than a power of two that buffered / chunked processing would use (2^16, 2^17 instructions)."""
    rng = ctx.rng
    for i in range(n):
        count = [2 ** 16, 2 ** 17, 2 ** 15][(ctx.shard + i) % 3] + rng.randint(3, 400)
        body = [("90", "nop"), ("c3", "ret"), ("50", "push   %rax"), ("48 89 e5", "mov    %rsp,%rbp")]
        lines = ["", "big.bin:     file format elf64-x86-64", "", "", "Disassembly of section .text:", "", "0000000000401000 <f>:"]
        for j in range(count):
            b, t = body[j % len(body)] if j % 97 else rng.choice(body)
            lines.append(f"  {0x401000 + 4 * j:x}:\t{b:<21}\t{t}")
        ctx.event("count_boundary_listings")
        _judge_listing(ctx, ws, "\n".join(lines) + "\n", f"count-boundary/{count}")


def pipe_stratum(ctx, ws, n):
    """The same text handed over through a named pipe and through /dev/stdin-style descriptors (`jasm -s <(objdump -d x)`): the
    stream is what the regular file gives, instruction for instruction."""
    from jv import listing as L
    for k in range(n):
        pipe_compare(ctx, ws, L.render(L.gen_listing(ctx.rng, 12 + 20 * k), ctx.rng))


def pipe_compare(ctx, ws, text):
    import threading
    if True:
        ref = objd.real_stream(ws, ws.write("pipe_ref.s", text))
        fifo = ws.path("in.fifo")
        if os.path.exists(fifo):
            os.remove(fifo)
        os.mkfifo(fifo)

        def feed():
            with open(fifo, "w") as fh:
                fh.write(text)
        t = threading.Thread(target=feed, daemon=True)
        t.start()
        got = objd.real_stream(ws, fifo)
        t.join(timeout=10)
        if t.is_alive():
            # nobody opened the pipe for reading: release the writer
            try:
                fd = os.open(fifo, os.O_RDONLY | os.O_NONBLOCK)
                os.close(fd)
            except OSError:
                pass
            t.join(timeout=5)
        ctx.ran(2)
        ctx.event("listings_read_through_a_named_pipe")
        ctx.case(("pipe", text), True, stratum="listing through a pipe")
        if ref[0] == "ok" and (got[0] != "ok" or got[1] != ref[1]):
            ctx.disagreement({"origin": "pipe", "listing": text, "pipe": True},
                             f"listing read through a named pipe: stream has {got[1].count('|') if got[0] == 'ok' else got[1:]} records, the regular file gives {ref[1].count('|')}")


def run_shard(ctx):
    ws = real.Workspace()
    block_boundary_stratum(ctx, ws, ctx.share(24, 240))
    count_boundary_stratum(ctx, ws, ctx.share(3, 48))
    multibyte_boundary_stratum(ctx, ws, ctx.share(12, 120))
    if ctx.shard == 1 % ctx.nshards:
        pipe_stratum(ctx, ws, 2 if ctx.tier == "quick" else 12)
    if ctx.shard == 0:
        for f in objd.fixtures():
            with open(f, encoding="utf-8", errors="replace") as fh:
                judge_listing(ctx, ws, fh.read(), "fixture:" + os.path.basename(f))
            ctx.event("fixtures")
    # synthetic rows: annotations objdump -C prints (demangled names with blanks, commas, brackets, `...` of variadic functions)
    from jv import listing as L
    for _ in range(ctx.share(16, 800)):
        judge_listing(ctx, ws, L.render(L.gen_listing(ctx.rng, 60), ctx.rng), "syn")
        ctx.event("synthetic_listings_judged")
    from jv import asmgen
    for _ in range(ctx.share(16, 1200)):
        bits = ctx.rng.choice([64, 32])
        r = asmgen.assemble(ws, [asmgen.template(ctx.rng, bits) for _ in range(150)], bits)
        if r is None:
            ctx.inconc("as refused a template batch")
        else:
            judge_listing(ctx, ws, r[1], f"as{bits}")
    n = ctx.share(160, 15000)
    for k in range(n):
        blob, secs, bits = objd.random_object(ctx.rng, size=(300, 3000) if ctx.tier == "quick" else (300, 6000))
        op = ws.write("o.bin", blob)
        rc, out, err = objd.disassemble(op)
        if rc != 0:
            ctx.inconc("objdump failed on generated object")
            continue
        if "\t...\n" in out:
            ctx.event("listings_with_zero_run_elision")
        judge_listing(ctx, ws, out, f"elf{bits}/{len(secs)}sec")


def replay(ctx, case):
    ws = real.Workspace()
    if case.get("pipe"):
        return pipe_compare(ctx, ws, case["listing"])
    judge_listing(ctx, ws, case["listing"], case.get("origin", "replay"), force_reuse=bool(case.get("reuse")), force_range=tuple(case["range"]) if case.get("range") else None)
