"""C09 - operands reach patterns in a fixed normal form."""
from jv import asmgen, listing as L, objd, real, refline, stream

LEVEL = "exploration"
RULE = ("(c) AT&T templates over all general-purpose registers and widths, scales 1/2/4/8, displacements of either sign, "
        "0-3 operands in any mix, direct and indirect branches, 64- and 32-bit, assembled by the installed `as` and printed by "
        "the installed objdump (spellings such as 0x0(,%rbx,8) are objdump's); plus S-syn renderings of operand mixes `as` "
        "refuses; a share of the listings is saved with CRLF line endings. The text goes through the assembly route; for every instruction whose operands are all in the forms listed "
        "by the property the decoded stream operands must equal R-line's normal-form table ($v->v, %r, k(a,b,c)->[a+b*c+k], "
        "(a,b,c)->[a+b*c], k(,b,c)->[+b*c+k], k(a)->[a+k], (a)->[a], 'addr <sym>'->addr) in content, number and order; "
        "for other shapes only the operand count is judged; instructions printed with prefixes are judged on the operands after "
        "their mnemonic token (open finding prefixed_instruction_operands_lost). 35 % of the listings are run again under a rule with "
        "valid_addr_range (only branch targets may change) and then once more without it in the same process (the stream must be the first one again). Non-trivial/distinct = distinct (mnemonic, operand-shape) "
        "signatures of judged instructions.")
FLOOR = {"quick": 150, "thorough": 400}
ANCHOR_HINTS = ["asm_manual_parser_w_regex"]
REQUIRED_EVENTS = ["instructions_judged", "listings_rerun_with_range_then_without"]


BRANCHES = ("call", "jmp", "j", "loop", "xbegin", "bnd")


def judge_records(ctx, dec, rinsts, origin, note="", skip_branches=False):
    for d, ri in zip(dec, rinsts):
        if "," in ri.parsed.mnemonic:
            continue
        if skip_branches and ri.parsed.mnemonic.startswith(BRANCHES):
            continue                     # what valid_addr_range does to branch targets is C18's subject
        if ri.parsed.prefixes:
            # prefixed instructions: the operands are those after the mnemonic token, like for any other line
            specified = all(o is not None for o in ri.ops_norm)
            want = tuple(ri.ops_norm) if ri.ops_norm else ("",)
            ctx.event("prefixed_instructions_judged")
            ok = (d[2] == want) if specified else (len(d[2]) == max(1, len(ri.ops_att)))
            if not ok:
                pr = ri.prefix_as_mnemonic()
                # the token after the prefix goes through the operand normaliser: `(bad)` comes out as `[bad]`
                key = "prefixed_instruction_operands_lost" if pr is not None and d[1] == pr[0] and list(d[2]) in ([pr[1]], ["[" + pr[1][1:-1] + "]"] if pr[1].startswith("(") else [pr[1]]) else None
                ctx.disagreement({"origin": origin, "listing": ri.raw + "\n"},
                                 f"{note}operands {list(d[2])} (mnemonic {d[1]!r}) for the prefixed line {ri.raw!r}; its operands are {list(want) if specified else ri.ops_att}", key)
            continue
        n_expected = max(1, len(ri.ops_att))
        if ri.plain or (ri.parsed.mnemonic == "(bad)" and all(o is not None for o in ri.ops_norm)):
            want = ri.expected_fields()
            ctx.case(objd.line_shape(ri), True)
            ctx.event("instructions_judged")
            same = d[2] == want[2]
            if not same and len(d[2]) == len(want[2]) and ri.parsed.mnemonic.startswith(BRANCHES):
                # a target objdump printed with 0x (raw images, PE listings): "the bare hexadecimal address" is met with or without the prefix
                same = all(g == w or (w.startswith("0x") and a == w and g != "" and g == (w[2:].lstrip("0") or "0")) for g, w, a in zip(d[2], want[2], ri.ops_att or [""]))
            if not same:
                ctx.disagreement({"origin": origin, "listing": ri.raw + "\n"},
                                 f"{note}operands {list(d[2])} differ from the normal form {list(want[2])} for line {ri.raw!r}")
                continue
            if len(ri.ops_att) >= 2:
                ctx.sample("multi-operand", {"line": ri.raw, "stream_operands": list(d[2])})
            elif any(o.startswith(("-", "0x")) and "(" in o for o in ri.ops_att):
                ctx.sample("memory", {"line": ri.raw, "stream_operands": list(d[2])})
        else:
            ctx.event("unspecified_shape_count_only")
            if len(d[2]) != n_expected:
                ctx.disagreement({"origin": origin, "listing": ri.raw + "\n"},
                                 f"{note}{len(d[2])} operands in the stream {list(d[2])}, {n_expected} in the line {ri.raw!r}")
                continue
            # operand by operand: every operand that is itself in a listed form has its normal form, whatever shape its neighbours have
            for k, (got, want_k) in enumerate(zip(d[2], ri.ops_norm)):
                if want_k is None or not ri.ops_att:
                    continue
                ctx.event("operands_judged_next_to_unspecified_ones")
                ok = got == want_k or (want_k.startswith("0x") and ri.ops_att[k] == want_k and got != "" and got == (want_k[2:].lstrip("0") or "0")
                                       and ri.parsed.mnemonic.startswith(BRANCHES))
                if not ok:
                    ctx.disagreement({"origin": origin, "listing": ri.raw + "\n"},
                                     f"{note}operand {k} is {got!r}, its normal form is {want_k!r} (line {ri.raw!r}; the other operands are outside the listed forms)")
                    break


RANGE_RULE = "config:\n  valid_addr_range:\n    min: '0'\n    max: 'ffffffffffffffff'\npattern:\n  - zzzzzz\n"


def judge_listing(ctx, ws, text, origin):
    with ctx.ambient_log():
        if ctx.last_log_level != "warning":
            origin = origin + f" [logger at {ctx.last_log_level}]"
        return _judge_listing(ctx, ws, text, origin)


def _judge_listing(ctx, ws, text, origin):
    if "crlf" in origin:
        p = ws.write("in.s", text.replace("\n", "\r\n").encode())
    else:
        p = ws.write("in.s", text)
    r = objd.real_stream(ws, p)
    ctx.ran()
    if r[0] != "ok":
        ctx.inconc("parser raised (left to C08)")
        return
    rinsts, _ = refline.read_listing(text)
    try:
        dec = stream.decode(r[1])
    except stream.StreamError:
        ctx.inconc("stream undecodable (left to C10)")
        return
    if len(dec) != len(rinsts):
        ctx.inconc("record count differs from listing (left to C08)")
        return
    judge_records(ctx, dec, rinsts, origin)
    if ctx.rng.random() < 0.35 or "range" in origin:
        # the normal form is the same whatever the rule configures: a rule with valid_addr_range (every address in range) may
        # only touch branch targets; afterwards, in the same process, a rule without the option sees the plain normal form again
        r2 = objd.real_stream(ws, p, rule_text=RANGE_RULE)
        r3 = objd.real_stream(ws, p)
        ctx.ran(2)
        ctx.event("listings_rerun_with_range_then_without")
        if r2[0] == "ok":
            try:
                dec2 = stream.decode(r2[1])
            except stream.StreamError:
                dec2 = None
            if dec2 is not None and len(dec2) == len(rinsts):
                judge_records(ctx, dec2, rinsts, origin + "+range", "under a rule with valid_addr_range: ", skip_branches=True)
        if r3[0] != "ok" or r3[1] != r[1]:
            n = next((i for i, (a, b) in enumerate(zip((r3[1] if r3[0] == "ok" else "").split("|"), r[1].split("|"))) if a != b), -1)
            ctx.disagreement({"origin": origin + "+range", "listing": text if len(text) < 100000 else text[:100000]},
                             f"a rule WITHOUT valid_addr_range, run after one that had it, sees other operands: record {n}: "
                             f"{(r3[1].split('|')[n] if r3[0] == 'ok' and n >= 0 else r3[1:])!r} instead of {(r[1].split('|')[n] if n >= 0 else '')!r}")


def run_shard(ctx):
    ws = real.Workspace()
    batches = ctx.share(64, 4000)
    for b in range(batches):
        bits = ctx.rng.choice([64, 64, 32])
        lines = [asmgen.template(ctx.rng, bits) for _ in range(150)]
        r = asmgen.assemble(ws, lines, bits)
        if r is None:
            ctx.inconc("as refused a template batch")
        else:
            judge_listing(ctx, ws, r[1], f"as{bits}" if ctx.rng.random() < 0.85 else f"as{bits}-crlf")
        # disassembly of random / biased bytes: encodings a compiler rarely emits (%riz/%eiz pseudo index, redundant SIB forms, x87, far operands)
        if b % 2 == 0:
            blob, secs, bits2 = objd.random_object(ctx.rng, size=(200, 1200))
            rc, out, _ = objd.disassemble(ws.write("o.bin", blob))
            if rc == 0:
                ctx.event("random_object_listings_judged")
                judge_listing(ctx, ws, out, f"elf{bits2}")
        # S-syn stratum: operand mixes `as` would refuse
        insts = L.gen_listing(ctx.rng, 40)
        # spellings a hand-edited or foreign listing may carry: the normal form keeps an immediate's text as it stands
        a0 = insts[-1].addr + insts[-1].nbytes
        for k, (m, ops) in enumerate([("mov", ["$0xFF", "%eax"]), ("cmp", ["$0xAB", "%al"]), ("push", ["$0xDEADBEEF"]), ("mov", ["$0x0A", "0x1C(%rsp)"]),
                                      ("and", ["$-0x10", "%rsp"]), ("mov", ["$0xff", "%eax"]), ("(bad)", ["0x4e(%rsi)"]), ("(bad)", ["%st(1)"]), ("(bad)", []),
                                      ("(bad)", ["$0x10", "%rax"]), ("call", ["0x180157700"]), ("jmp", ["0x0"]), ("jne", ["0x10"]), ("call", ["0"]), ("jmp", ["0x0"]),
                                      ("lods", ["%ds:(%rsi)", "%al"]), ("scas", ["%es:(%rdi)", "%rax"]), ("outsb", ["%ds:(%rsi)", "(%dx)"]), ("lods", ["%ds:(%rsi)", "%eax"]),
                                      ("vgetmantpd", ["$0x4", "{sae}", "%zmm1", "%zmm2"]), ("vrndscalesd", ["$0x3", "{sae}", "%xmm1", "%xmm2", "%xmm3"]),
                                      ("vaddps", ["{rn-sae}", "%zmm1", "%zmm2", "%zmm3"]), ("mov", ["%fs:0x28", "%rax"]), ("mov", ["$0x10", "%gs:0x0(%rax)"]),
                                      # commas inside the parentheses of an operand that starts with a segment override and / or `*`
                                      ("call", ["*%fs:0x8(%rax,%rcx,8)"]), ("jmp", ["*%gs:0x0(,%rax,8)"]), ("call", ["*%fs:0x10(%rax)"]), ("jmp", ["*%fs:(%rbx)"]),
                                      ("mov", ["%fs:0x10(%rax,%rbx,4)", "%rcx"]), ("mov", ["%rcx", "%gs:(%rax,%rbx,1)"]), ("call", ["*0x8(%rax,%rcx,8)"]),
                                      ("jmp", ["*(%rax,%rbx,8)"]), ("lea", ["%cs:0x0(%rax,%rax,1)", "%rsi"])]):
            insts.append(L.SInst(a0 + 8 * k, m, ops, None, None, 5))
        judge_listing(ctx, ws, L.render(insts, ctx.rng), "syn" if ctx.rng.random() < 0.7 else "syn-crlf")


def replay(ctx, case):
    judge_listing(ctx, real.Workspace(), case["listing"], case.get("origin", "replay"))
