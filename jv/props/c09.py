"""C09 - operands reach patterns in a fixed normal form."""
from jv import asmgen, listing as L, objd, real, refline, stream

LEVEL = "exploration"
RULE = ("(c) AT&T templates over all general-purpose registers and widths, scales 1/2/4/8, displacements of either sign, "
        "0-3 operands in any mix, direct and indirect branches, 64- and 32-bit, assembled by the installed `as` and printed by "
        "the installed objdump (spellings such as 0x0(,%rbx,8) are objdump's); plus S-syn renderings of operand mixes `as` "
        "refuses; a share of the listings is saved with CRLF line endings. The text goes through the assembly route; for every instruction whose operands are all in the forms listed "
        "by the property the decoded stream operands must equal R-line's normal-form table ($v->v, %r, k(a,b,c)->[a+b*c+k], "
        "(a,b,c)->[a+b*c], k(,b,c)->[+b*c+k], k(a)->[a+k], (a)->[a], 'addr <sym>'->addr) in content, number and order; "
        "for other shapes only the operand count is judged. Non-trivial/distinct = distinct (mnemonic, operand-shape) "
        "signatures of judged instructions.")
FLOOR = {"quick": 150, "thorough": 400}
ANCHOR_HINTS = ["asm_manual_parser_w_regex"]
REQUIRED_EVENTS = ["instructions_judged"]


def judge_listing(ctx, ws, text, origin):
    if origin.endswith("crlf"):
        p = ws.write("in.s", text.replace("\n", "\r\n").encode())
    else:
        p = ws.write("in.s", text)
    r = objd.real_stream(ws, p)
    ctx.ran()
    if r[0] != "ok":
        ctx.inconc("parser raised (left to C08)")
        return
    rinsts, _ = refline.read_listing(text)
    try:
        dec = stream.decode(r[1])
    except stream.StreamError:
        ctx.inconc("stream undecodable (left to C10)")
        return
    if len(dec) != len(rinsts):
        ctx.inconc("record count differs from listing (left to C08)")
        return
    for d, ri in zip(dec, rinsts):
        if "," in ri.parsed.mnemonic or ri.parsed.prefixes:
            continue
        n_expected = max(1, len(ri.ops_att))
        if ri.plain:
            want = ri.expected_fields()
            ctx.case(objd.line_shape(ri), True)
            ctx.event("instructions_judged")
            if d[2] != want[2]:
                ctx.disagreement({"origin": origin, "listing": ri.raw + "\n"},
                                 f"operands {list(d[2])} differ from the normal form {list(want[2])} for line {ri.raw!r}")
                continue
            if len(ri.ops_att) >= 2:
                ctx.sample("multi-operand", {"line": ri.raw, "stream_operands": list(d[2])})
            elif any(o.startswith(("-", "0x")) and "(" in o for o in ri.ops_att):
                ctx.sample("memory", {"line": ri.raw, "stream_operands": list(d[2])})
        else:
            ctx.event("unspecified_shape_count_only")
            if len(d[2]) != n_expected:
                ctx.disagreement({"origin": origin, "listing": ri.raw + "\n"},
                                 f"{len(d[2])} operands in the stream {list(d[2])}, {n_expected} in the line {ri.raw!r}")


def run_shard(ctx):
    ws = real.Workspace()
    batches = ctx.share(64, 4000)
    for b in range(batches):
        bits = ctx.rng.choice([64, 64, 32])
        lines = [asmgen.template(ctx.rng, bits) for _ in range(150)]
        r = asmgen.assemble(ws, lines, bits)
        if r is None:
            ctx.inconc("as refused a template batch")
        else:
            judge_listing(ctx, ws, r[1], f"as{bits}" if ctx.rng.random() < 0.85 else f"as{bits}-crlf")
        # S-syn stratum: operand mixes `as` would refuse
        insts = L.gen_listing(ctx.rng, 40)
        judge_listing(ctx, ws, L.render(insts, ctx.rng), "syn" if ctx.rng.random() < 0.7 else "syn-crlf")


def replay(ctx, case):
    judge_listing(ctx, real.Workspace(), case["listing"], case.get("origin", "replay"))
