"""C10 - the matcher's text stream is an unambiguous encoding of the instruction list."""
import os

from jv import hooks, objd, real, refline, stream

LEVEL = "exploration"
RULE = ("The C08 workload (random / biased code in ELF64 and ELF32 objects through the real objdump, plus tests/assembly, plus batches "
        "assembled from templates that always contain prefixed instructions and AVX-512 operands with glued {1to16}/{%k1}/{z} decorations) "
        "fed through the assembly route. Hook H1 (wrapper around CompleteConsumer.consume_instruction installed from the "
        "harness) records the Instruction objects the parser produced; the invariant decode(stream) == [(addr, mnemonic, "
        "operands or one empty field)] (byte-continuation pseudo instructions removed) is evaluated on every run, i.e. no "
        "field contains ',', '|' or '::' and every record is terminated exactly once. Without the hook R-line's list is used "
        "for addresses/counts. Non-trivial/distinct = distinct line shapes seen. "
        "(1d) the stream under a rule whose valid_addr_range holds no address of the listing equals the plain stream.")
FLOOR = {"quick": 300, "thorough": 1500}
ANCHOR_HINTS = ["global_definitions", "consumer", "asm_manual_parser_w_regex"]
REQUIRED_EVENTS = ["streams_decoded", "assembled_batches_judged"]
SHARDS = {"quick": 16, "thorough": 64}

REC = hooks.Recorder()
_installed = False


def install():
    global _installed
    if not _installed:
        hooks.install_observer_hooks(REC)
        _installed = True


def classify_line(raw: str):
    ln = refline.classify(raw)
    if ln.kind == "inst":
        p = refline.parse_text(ln.text)
        if any(t.endswith((",pt", ",pn")) for t in p.tokens[:len(p.prefixes) + 1]):
            return "hinted_jcc_comma_in_mnemonic"
    return None


def judge_listing(ctx, ws, text, origin, force_history=False):
    with ctx.ambient_log():
        if ctx.last_log_level != "warning":
            origin = origin + f" [logger at {ctx.last_log_level}]"
        return _judge_listing(ctx, ws, text, origin, force_history)


def _judge_listing(ctx, ws, text, origin, force_history=False):
    if ctx.rng.random() < 0.25:
        from jv.props import c08
        c08.failing_run(ctx, ws)          # a run that aborts (at match time, or in the middle of the listing) right before: nothing of it may stay
    p = ws.write("in.s", text)
    REC.clear()
    r = objd.real_stream(ws, p)
    ctx.ran()
    if r[0] != "ok":
        ctx.inconc("parser raised (left to C08)")
        return
    handed = [(e[1], e[2], e[3]) for e in REC.events if e[0] == "inst"]
    rinsts, stats = refline.read_listing(text)
    for ri in rinsts:
        ctx.case(objd.line_shape(ri), True)
    s = r[1]
    if handed:
        ctx.event("instructions_observed_at_hook", len(handed))
        want = [(a, m, tuple(o) if o else ("",)) for a, m, o in handed if m != "empty"]
    else:
        want = None
    if want is None:
        # hook unavailable: fall back to R-line for addresses / counts
        try:
            dec = stream.decode(s)
            ctx.event("streams_decoded")
        except stream.StreamError as e:
            ctx.disagreement({"origin": origin, "listing": text[:100000]}, f"stream is not decodable: {e}")
            return
        if [d[0] for d in dec] != [ri.addr for ri in rinsts]:
            ctx.disagreement({"origin": origin, "listing": text[:100000]}, "addresses recovered from the stream differ from the listing's instruction lines")
        return
    # (1) framing: the stream is exactly the concatenation of addr::mnemonic,operands,| records
    if s != stream.encode(want):
        ctx.disagreement({"origin": origin, "listing": text[:100000]},
                         f"stream is not the concatenation of 'addr::mnemonic,op,...,|' records of the {len(want)} instructions the parser produced: "
                         f"{s[:120]!r} vs {stream.encode(want)[:120]!r}")
        return
    # (1a) the text handed to the matcher does not depend on the search mode (all-matches builds the same stream as first-match)
    ra_ = real.match(ws.write("_stream_rule.yaml", "pattern:\n  - zzzzzz\n"), p, ret="stream", search="all")
    ctx.ran()
    ctx.event("streams_compared_across_search_modes")
    if ra_[0] != "ok" or ra_[1] != s:
        got = ra_[1] if ra_[0] == "ok" else str(ra_[1:])
        ctx.disagreement({"origin": origin, "listing": text[:100000]},
                         f"all-matches mode builds a stream of {got.count('|')} records, first-match mode one of {s.count('|')} for the same listing")
        return
    # (1b) the same matcher object asked a second time hands the matcher the same text (nothing accumulates)
    if ctx.rng.random() < 0.3:
        rt = real.match_twice(ws.write("_stream_rule.yaml", "pattern:\n  - zzzzzz\n"), p, ret="stream")
        ctx.ran(2)
        ctx.event("same_object_asked_twice")
        if rt[0] == "ok" and (rt[1] != s or rt[2] != s):
            ctx.disagreement({"origin": origin, "listing": text[:100000]},
                             f"perform_matching() twice on one object: the stream of the 2nd call has {str(rt[2]).count('|')} records, the input encodes to {s.count('|')}")
            return
    # (1c) history: a rule that configures valid_addr_range, or the same matcher object used on another listing, run earlier in
    #      the process must not change the text a plain rule hands to the matcher for THIS listing (the encoding is a function
    #      of the instruction list alone)
    if (force_history or ctx.rng.random() < 0.3) and len(text) < 400000:
        objd.real_stream(ws, p, rule_text="config:\n  valid_addr_range:\n    min: '0'\n    max: 'ffffffffffffffff'\npattern:\n  - zzzzzz\n")
        r3 = objd.real_stream(ws, p)
        other = ws.write("prev.s", "  401000:\t55                   \tpush   %rbp\n  401001:\te8 0a 00 00 00       \tcall   401010 <f>\n  401006:\tc3                   \tret\n")
        rs = real.match_sequence(ws.write("_stream_rule.yaml", "pattern:\n  - zzzzzz\n"), [other, p], ret="stream")
        ctx.ran(4)
        ctx.event("streams_rebuilt_after_other_runs")
        for what, got in (("after a run of a rule with valid_addr_range", r3[1] if r3[0] == "ok" else None),
                          ("by a matcher object used on another listing before", rs[1][1] if rs[0] == "ok" else None)):
            if got != s:
                n = next((i for i, (a, b) in enumerate(zip((got or "").split("|"), s.split("|"))) if a != b), -1)
                ctx.disagreement({"origin": origin, "history": True, "listing": text[:100000]},
                                 f"the stream built {what} differs from the one a fresh run builds: {str(got).count('|')} vs {s.count('|')} records; "
                                 f"first difference at record {n}: {((got or '').split('|')[n] if n >= 0 and got else got)!r} vs {(s.split('|')[n] if n >= 0 else '')!r}")
                return
    # (1d) a rule whose valid_addr_range contains no address of the listing installs the range observer but tags nothing: the text
    #      handed to the matcher is the same, record for record (no record added, dropped or re-encoded by the extra observer)
    if (force_history or ctx.rng.random() < 0.5) and len(text) < 400000:
        rq = objd.real_stream(ws, p, rule_text="config:\n  valid_addr_range:\n    min: 'fffffffffffffff0'\n    max: 'fffffffffffffff8'\npattern:\n  - zzzzzz\n")
        ctx.ran()
        if rq[0] != "ok":
            ctx.event("inert_range_run_raised:" + str(rq[1]))       # a branch operand that is not an address: C18's subject
        else:
            ctx.event("streams_compared_under_inert_range")
            if rq[1] != s and "fffffffffffffff" not in text:
                n = next((i for i, (a, b) in enumerate(zip(rq[1].split("|"), s.split("|"))) if a != b), -1)
                ctx.disagreement({"origin": origin, "history": True, "listing": text[:100000]},
                                 f"under a rule whose valid_addr_range holds no address of the listing the stream has {rq[1].count('|')} records, without the option "
                                 f"{s.count('|')}; first difference at record {n}: {(rq[1].split('|')[n] if n >= 0 else '')!r} vs {(s.split('|')[n] if n >= 0 else '')!r}")
                return
    # (2) hygiene, record by record: decode(encode(inst)) == inst
    ctx.event("streams_decoded")
    by_addr = {}
    for ri in rinsts:
        by_addr.setdefault(ri.addr, ri.raw)
    reported = set()
    ok = 0
    aligned = len(want) == len(rinsts) and all(w[0] == ri.addr for w, ri in zip(want, rinsts))
    for idx, inst in enumerate(want):
        try:
            good = stream.decode(stream.encode([inst])) == [inst]
        except stream.StreamError:
            good = False
        if good:
            ok += 1
            continue
        line = rinsts[idx].raw if aligned else by_addr.get(inst[0])
        key = classify_line(line) if line else None
        if key and not (inst[1].endswith((",pt", ",pn")) and inst[1].count(",") == 1 and "|" not in inst[1] and "::" not in inst[1]
                        and all("," not in o and "|" not in o and "::" not in o for o in inst[2])):
            key = None          # the open finding is exactly "the hint's comma stays in the mnemonic field"; anything else on such a line is new
        sig = key or objd.line_shape(refline.RInst(inst[0], refline.parse_text(refline.classify(line).text), 0, line)) if line else str(inst)
        if sig in reported:
            continue
        reported.add(sig)
        ctx.disagreement({"origin": origin, "listing": (line + "\n") if line else text[:100000]},
                         f"a field contains a separator: parser produced {inst}, which decodes as {_try_decode(inst)}", key)
    ctx.event("records_roundtrip_ok", ok)
    if not reported:
        ctx.sample("decoded", {"origin": origin, "records": len(want), "first": [list(map(str, d)) for d in want[:3]]})


def _try_decode(inst):
    try:
        return stream.decode(stream.encode([inst]))
    except stream.StreamError as e:
        return f"undecodable ({e})"


def run_shard(ctx):
    install()
    for m in REC.missing:
        ctx.event("hook_missing:" + m)
    ws = real.Workspace()
    if ctx.shard == 0:
        for f in objd.fixtures():
            with open(f, encoding="utf-8", errors="replace") as fh:
                judge_listing(ctx, ws, fh.read(), "fixture:" + os.path.basename(f))
    from jv import asmgen
    for _ in range(ctx.share(16, 1200)):
        # assembled templates: every batch holds prefixed instructions and AVX-512 operands with glued decorations
        bits = ctx.rng.choice([64, 64, 32])
        lines = [asmgen.template(ctx.rng, bits) for _ in range(120)] + [asmgen.prefixed(ctx.rng, bits) for _ in range(10)]
        if bits == 64:
            lines += [asmgen.decorated(ctx.rng) for _ in range(20)]
        ctx.rng.shuffle(lines)
        r = asmgen.assemble(ws, lines, bits)
        if r is None:
            ctx.inconc("as refused a template batch")
        else:
            ctx.event("assembled_batches_judged")
            judge_listing(ctx, ws, r[1], f"as{bits}")
    for i in range(ctx.share(3, 48)):
        # more instructions than 2^16 / 2^17: what a buffered or chunked encoder would have to carry over
        count = [2 ** 16, 2 ** 17, 2 ** 15][(ctx.shard + i) % 3] + ctx.rng.randint(3, 400)
        body = [("90", "nop"), ("c3", "ret"), ("50", "push   %rax"), ("48 89 e5", "mov    %rsp,%rbp")]
        lines = ["Disassembly of section .text:", "", "0000000000401000 <f>:"]
        for j in range(count):
            b, t = body[(j * 7 + j // 13) % len(body)]
            lines.append(f"  {0x401000 + 4 * j:x}:\t{b:<21}\t{t}")
        ctx.event("huge_listings_judged")
        judge_listing(ctx, ws, "\n".join(lines) + "\n", f"huge/{count}")
    n = ctx.share(160, 12000)
    for k in range(n):
        blob, secs, bits = objd.random_object(ctx.rng)
        op = ws.write("o.bin", blob)
        rc, out, err = objd.disassemble(op)
        if rc != 0:
            ctx.inconc("objdump failed on generated object")
            continue
        judge_listing(ctx, ws, out, f"elf{bits}/{len(secs)}sec")


def replay(ctx, case):
    install()
    judge_listing(ctx, real.Workspace(), case["listing"], case.get("origin", "replay"), force_history=bool(case.get("history")))
