"""C11 - all-matches mode is a complete leftmost non-overlapping scan."""
import regex
import yaml

from jv import drive, dsl, model as M, real, rulegen as RG

LEVEL = "exploration"
RULE = ("S-syn listings with planted runs / repeated blocks (adjacent, separated and overlapping-candidate occurrences, "
        "e.g. 'a a a a' for the rule 'a a') x multi-instruction rules that cannot match the empty sequence. Offline trace "
        "checker: with P = the real compiled rule and S = the real stream, the harness performs its own scan - at every "
        "character position p >= pos test P.match(S, p), emit the first success, continue at its end - and the list "
        "returned by all-matches mode must equal that scan element by element (hence pairwise disjoint, increasing, every "
        "element a match, nothing skipped in any gap or after the last); first-match mode must return exactly its first "
        "element; long listings (2 000-30 000 instructions) with a marker planted at known positions incl. the very end must be reported "
        "exactly; variable-length rules (times ranges, $not over a multi-instruction group) whose only occurrence straddles an index boundary "
        "(powers of two, multiples of 1000, visited in turn) of a long listing must be reported whole; occurrences that straddle a non-instruction "
        "line (`...` elision, label, blank, section header) and listings with many in-range direct branches under valid_addr_range must be "
        "reported at their planted addresses in address-only and full-text mode; asking the same matcher object a second time must give the same lists; addresses must increase numerically. Non-trivial = the scan yields >= 2 hits or there are overlapping "
        "candidates (a position inside a reported hit also starts a match); distinct = (rule, listing).")
FLOOR = {"quick": 150, "thorough": 2000}
ANCHOR_HINTS = ["consumer", "matched_observers"]
REQUIRED_EVENTS = ["scans_compared", "long_variable_length_cases", "gap_or_range_listings_scanned"]


def feat(rng):
    return RG.Feat(operands=0.4, groups=0.25, nots=0.1, times_item=0.3, group_times=0.3, max_depth=1,
                   max_spine=rng.choice([1, 2, 2, 3]))


def own_scan(P, S):
    out, pos, overlap = [], 0, False
    n = len(S)
    while pos <= n:
        m = None
        p = pos
        while p <= n:
            m = P.match(S, p)
            if m:
                break
            p += 1
        if not m:
            break
        out.append((m.start(), m.end(), m.group(0)))
        if not overlap:
            # overlapping candidate: some record start strictly inside the hit also starts a match
            q = S.find("|", m.start(), m.end() - 1)
            while q >= 0 and q + 1 < m.end():
                if P.match(S, q + 1):
                    overlap = True
                    break
                q = S.find("|", q + 1, m.end() - 1)
        pos = m.end() if m.end() > m.start() else m.end() + 1
    return out, overlap


def monitor(driver, doc, text, prep, o):
    ctx = driver.ctx
    if o.status != "ok" or o.regex is None:
        return
    case = dsl.case_doc(text, prep, "c11")
    try:
        P = regex.compile(o.regex)
    except regex.error:
        ctx.inconc("rule regex does not compile in the harness")
        return
    scan, overlap = own_scan(P, prep.stream)
    want = [t for _, _, t in scan]
    if any(t == "" for t in want):
        ctx.event("skipped_empty_match")
        return
    ctx.event("scans_compared")
    ctx.event("scan_hits", len(want))
    nontrivial = len(want) >= 2 or overlap
    ctx.case(("c11", text, prep.expect), nontrivial, stratum="overlapping-candidates" if overlap else ("multi-hit" if len(want) >= 2 else "single/none"))
    if overlap:
        ctx.sample("overlapping-candidates", {"rule": text, "hits": want[:4], "stream_head": prep.stream[:300]})
    if list(o.hits) != want:
        ctx.disagreement(case, f"all-matches returned {len(o.hits)} hits {[h[:40] for h in o.hits[:4]]}, the harness's leftmost "
                               f"non-overlapping scan with the same compiled rule yields {len(want)} {[h[:40] for h in want[:4]]}")
        return
    rp = driver.ws.path("rule.yaml")
    rf = real.match(rp, prep.path, ret="list", search="first", only_addr=False, macros=driver.macros)
    ctx.ran()
    if rf[0] != "ok":
        ctx.disagreement(case, f"first-match mode raised {rf[1]} although all-matches succeeded")
        return
    if list(rf[1]) != want[:1]:
        ctx.disagreement(case, f"first-match mode returned {rf[1]}, the first element of the scan is {want[:1]}")
        return
    # the same matcher object asked again must report the same scan (no hits carried over from the previous scan)
    for search in ("all", "first"):
        rt = real.match_twice(rp, prep.path, ret="list", search=search, only_addr=False, macros=driver.macros)
        ctx.ran(2)
        expect = want if search == "all" else want[:1]
        if rt[0] != "ok" or list(rt[1]) != expect or list(rt[2]) != expect:
            ctx.disagreement(case, f"perform_matching() called twice on one matcher ({search}-match): first {str(rt[1])[:120]}, second {str(rt[2])[:160]}, "
                                   f"the scan yields {[h[:30] for h in expect[:4]]}")
            return
    ctx.event("repeated_scans_compared")
    addrs = [int(t.split("::")[0], 16) for t in want if "::" in t and t.split("::")[0]]
    listing_addrs = [int(a, 16) for a, _, _ in prep.expect]
    increasing_listing = all(b > a for a, b in zip(listing_addrs, listing_addrs[1:]))     # relocatable-object style listings restart at 0
    # address-only mode must report one address per hit, in the same order
    ra = real.match(rp, prep.path, ret="list", search="all", only_addr=True, macros=driver.macros)
    ctx.ran()
    if ra[0] != "ok" or list(ra[1]) != [t.split("::")[0] for t in want]:
        ctx.disagreement(case, f"address-only all-matches {str(ra[1])[:120]} is not one address per element of the scan {[t.split('::')[0] for t in want][:8]}")
        return
    if increasing_listing and len(addrs) == len(want) and any(b <= a for a, b in zip(addrs, addrs[1:])):
        ctx.disagreement(case, f"reported addresses are not increasing: {addrs[:8]}")


def long_listing_stratum(ctx, ws, n):
    """Long listings (2 000 - 30 000 instructions) with a marker sequence planted at known positions, also at the very
    end: all-matches must report exactly the planted addresses (ground truth by construction, independent of the stream)."""
    from jv import listing as L
    rng = ctx.rng
    for _ in range(n):
        size = rng.choice([2000, 5000, 12000, 30000])
        body = L.gen_listing(rng, 40, mnems=["mov", "add", "push", "pop", "lea", "cmp", "xor"], start=0x401000)
        insts, addr, planted = [], 0x401000, []
        # marker = the two-instruction sequence 'hlt; cli'; planted at random places, at the very end, and so that it straddles
        # index boundaries that block-wise processing would use (2^k - 1 for k = 9..14)
        cand = [size - 2] + [rng.randrange(size - 2) for _ in range(rng.randint(0, 4))] + [2 ** k - 1 for k in range(9, 15) if 2 ** k < size - 2 and rng.random() < 0.7]
        r5 = rng.random()
        if r5 < 0.35:
            bounds = [2 ** k - 1 for k in range(9, 15) if 2 ** k < size - 2]
            cand = [rng.choice(bounds)] + ([size - 2] if rng.random() < 0.5 else [])      # the FIRST occurrence straddles a boundary
        elif r5 < 0.5:
            cand = [max(c for c in cand if c < size - 2)] if any(c < size - 2 for c in cand) else cand      # a single occurrence, late
        marks, last = [], -5
        for m in sorted(set(cand)):
            if m - last >= 3:
                marks.append(m)
                last = m
        markset = set(marks)
        k = 0
        while len(insts) < size:
            src = body[k % len(body)]
            k += 1
            if len(insts) in markset:
                planted.append(format(addr, "x"))
                insts.append(L.SInst(addr, "hlt", [], None, None, 1))
                insts.append(L.SInst(addr + 1, "cli", [], None, None, 1))
                addr += 2
            else:
                insts.append(L.SInst(addr, src.mnem, list(src.ops), None, None, src.nbytes))
                addr += src.nbytes
        lp = ws.write("long.s", L.render(insts, rng, labels=False))
        rp = ws.write("long.yaml", "config:\n  mnemonics-full-match: true\npattern:\n  - hlt\n  - cli\n")
        r = real.match(rp, lp, ret="list", search="all", only_addr=True)
        rf = real.match(rp, lp, ret="list", search="first", only_addr=True)
        ctx.ran(2)
        ctx.event("long_listings_scanned")
        ctx.case(("long", size, tuple(planted)), True, stratum=f"long listing {size}")
        if r[0] != "ok" or list(r[1]) != planted:
            ctx.disagreement({"long_listing": True, "size": size, "planted": planted, "reported": str(r[1])[:300]},
                             f"listing of {size} instructions with 'hlt; cli' planted at {planted[-4:]} (last address {planted[-1]}): all-matches reported {str(r[1])[:200]}")
            continue
        if rf[0] != "ok" or list(rf[1]) != planted[:1]:
            ctx.disagreement({"long_listing": True, "size": size, "planted": planted}, f"first-match reported {str(rf[1])[:100]}, expected {planted[:1]}")
            continue
        ctx.sample("long-listing", {"instructions": size, "planted": planted, "reported": list(r[1])})


def gap_and_range_stratum(ctx, ws, n):
    """(a) occurrences of a two-instruction rule that straddle a line objdump prints between instructions (`\t...` elision of zero
    bytes, a symbol label, a blank line, a section header): the stream is contiguous there, so the scan reports them;
    (b) the same rule under a config with valid_addr_range on listings with many in-range direct branches in front of the
    occurrences: address-only mode reports the start of every hit, one per full-text hit. Ground truth by construction."""
    from jv import listing as L
    rng = ctx.rng
    for _ in range(n):
        size = rng.choice([30, 60, 120, 300])
        insts, addr, planted = [], rng.choice([0x401000, 0x1000, 0x7ff0]), []
        with_range = rng.random() < 0.5
        while len(insts) < size:
            r = rng.random()
            if r < 0.08:
                planted.append(format(addr, "x"))
                insts.append(L.SInst(addr, "hlt", [], None, None, 1))
                insts.append(L.SInst(addr + 1, "cli", [], None, None, 1))
                addr += 2
            elif r < (0.45 if with_range else 0.15):
                m = rng.choice(["call", "jmp", "call", "je", "jne"])
                insts.append(L.SInst(addr, m, [format(rng.choice([0x401000, 0x401037, 0x1000, 0x40, 0x7ff8]), "x")], rng.choice([None, "<f+0x10>"]), None, 5))
                addr += 5
            else:
                m, ops = L.rand_inst_body(rng, mnems=["mov", "add", "push", "pop", "lea", "cmp", "xor"])
                if ops == ["@target"]:
                    ops = ["%rax"]
                nb = rng.randint(1, 7)
                insts.append(L.SInst(addr, m, ops, None, None, nb))
                addr += nb
        if not planted:
            continue
        text = L.render(insts, rng, labels=False)
        out, gaps = [], 0
        for line in text.split("\n"):
            if line.rstrip().endswith("\tcli") and rng.random() < 0.6:
                out.append(rng.choice(["\t...", "\t...", "", "0000000000401000 <sym>:", "Disassembly of section .text2:", "\t...\n"]))
                gaps += 1
            out.append(line)
        lp = ws.write("gap.s", "\n".join(out))
        doc = {"config": {"mnemonics-full-match": True}, "pattern": ["hlt", "cli"]}
        if with_range:
            doc["config"]["valid_addr_range"] = {"min": "0", "max": "ffffffffffff"}
        rp = ws.write("gap.yaml", real.dump_rule(doc))
        ra = real.match(rp, lp, ret="list", search="all", only_addr=True)
        rt = real.match(rp, lp, ret="list", search="all", only_addr=False)
        rf = real.match(rp, lp, ret="list", search="first", only_addr=True)
        ctx.ran(3)
        ctx.event("gap_or_range_listings_scanned")
        ctx.event("occurrences_straddling_a_non_instruction_line", gaps)
        ctx.case(("gap", tuple(planted), gaps, with_range, size), True, stratum="gap lines" + (" + valid_addr_range" if with_range else ""))
        case = {"gap_listing": True, "listing": "\n".join(out), "rule": real.dump_rule(doc), "planted": planted}
        if ra[0] != "ok" or rt[0] != "ok" or rf[0] != "ok":
            ctx.disagreement(case, f"a mode raised: {[r[:3] for r in (ra, rt, rf) if r[0] != 'ok'][:1]}")
        elif list(ra[1]) != planted or [h.split("::")[0] for h in rt[1]] != planted or list(rf[1]) != planted[:1]:
            ctx.disagreement(case, f"'hlt; cli' stands at {planted[:8]} ({gaps} occurrences have a non-instruction line between the two instructions, "
                                   f"valid_addr_range={'on' if with_range else 'off'}): address-only all-matches {str(ra[1])[:120]}, full-text starts "
                                   f"{[h.split('::')[0] for h in rt[1]][:8]}, first-match {rf[1]}")


def replay_gap(ctx, case):
    ws = real.Workspace()
    lp, rp = ws.write("gap.s", case["listing"]), ws.write("gap.yaml", case["rule"])
    ra = real.match(rp, lp, ret="list", search="all", only_addr=True)
    rt = real.match(rp, lp, ret="list", search="all", only_addr=False)
    rf = real.match(rp, lp, ret="list", search="first", only_addr=True)
    ctx.ran(3)
    planted = case["planted"]
    if ra[0] != "ok" or rt[0] != "ok" or rf[0] != "ok" or list(ra[1]) != planted or [h.split("::")[0] for h in rt[1]] != planted or list(rf[1]) != planted[:1]:
        ctx.disagreement(case, f"'hlt; cli' stands at {planted[:8]}: address-only {str(ra[1:2])[:120]}, full text starts {str(rt[1:2])[:120]}, first {rf[1:2]}")


BOUNDS = [8192, 4096, 1024, 16384, 10000, 2048, 1000, 512, 5000, 32768, 8191, 4095, 20000, 12288, 24576, 50000, 65536, 100000, 25000, 40000, 30000]


def long_variable_stratum(ctx, ws, n):
    """Long listings x VARIABLE-length rules whose first occurrence straddles an index boundary that block-wise or incremental
    processing would use (every power of two / multiple of 1000 in BOUNDS is visited in turn, independent of the seed):
    `hlt, cli{1,40}` must report the whole run of cli (greedy), `hlt, $not[$and[cli, cli, sti]] ...` must see the instructions after
    the boundary. Ground truth by construction; first-match must be the head of all-matches in text and address."""
    from jv import listing as L
    rng = ctx.rng
    for i in range(n):
        B = BOUNDS[(ctx.shard + i * ctx.nshards) % len(BOUNDS)]
        size = B + rng.randint(50, 1500)
        body = L.gen_listing(rng, 40, mnems=["mov", "add", "push", "pop", "lea", "cmp", "xor"], start=0x401000)
        before, after = rng.randint(1, 6), rng.randint(1, 6)       # cli instructions before / after index B
        if (ctx.shard + i * ctx.nshards) % 4 == 3:
            before, after = rng.randint(60, 200), rng.randint(60, 200)      # one hit of several hundred instructions (a long matched text)
        start = B - before - 1                                      # index of the hlt
        run = before + after
        insts, addr, k = [], 0x401000, 0
        while len(insts) < size:
            if len(insts) == start:
                hit_addr = format(addr, "x")
                for m in ["hlt"] + ["cli"] * run + ["sti"]:
                    insts.append(L.SInst(addr, m, [], None, None, 1))
                    addr += 1
                continue
            src = body[k % len(body)]
            k += 1
            insts.append(L.SInst(addr, src.mnem, list(src.ops), None, None, src.nbytes))
            addr += src.nbytes
        lp = ws.write("longv.s", L.render(insts, rng, labels=False))
        kind = rng.choice(["times", "times", "not-and", "times-exact-max"])
        if before > 50:
            kind = "times"
        if kind == "times":
            pat = ["hlt", {"cli": {"times": {"min": 1, "max": 40 if before <= 50 else 600}}}]
            want_records = 1 + run
        elif kind == "times-exact-max":
            pat = ["hlt", {"cli": {"times": {"min": 1, "max": run}}}, "sti"]
            want_records = 2 + run
        else:
            # after hlt: `before` cli; then a $not over the three-instruction group cli,cli,sti which does NOT match at that place
            # unless exactly two cli are left - the group's tail lies beyond the boundary
            pat = ["hlt"] + ["cli"] * (before - 1) + [{"$not": [{"$and": ["cli"] * (after + 1) + ["sti"]}]}]
            want_records = None                                      # cli^(after+1) sti DOES match there: the rule must not be found
        rp = ws.write("longv.yaml", real.dump_rule({"config": {"mnemonics-full-match": True}, "pattern": pat}))
        ra = real.match(rp, lp, ret="list", search="all", only_addr=False)
        rf = real.match(rp, lp, ret="list", search="first", only_addr=False)
        rb = real.match(rp, lp, ret="bool", search="first")
        rfa = real.match(rp, lp, ret="list", search="first", only_addr=True)
        ctx.ran(4)
        ctx.event("long_variable_length_cases")
        ctx.case(("longv", B, before, after, kind), True, stratum=f"long listing, variable-length rule at index {B}")
        case = {"long_variable": True, "B": B, "before": before, "after": after, "kind": kind, "size": size}
        if any(r[0] != "ok" for r in (ra, rf, rb, rfa)):
            ctx.disagreement(case, f"a mode raised on a {size}-instruction listing: {[r[:2] for r in (ra, rf, rb, rfa) if r[0] != 'ok'][:2]}")
            continue
        if want_records is None:
            if ra[1] or rf[1] or rb[1] or rfa[1]:
                ctx.disagreement(case, f"{kind} rule around instruction index {B} of {size}: the $not argument matches there (its tail lies beyond the index), "
                                       f"yet all={str(ra[1])[:80]} first={str(rf[1])[:80]} bool={rb[1]} first-addr={rfa[1]}")
            continue
        ok = (len(ra[1]) == 1 and ra[1][0].count("|") == want_records and ra[1][0].startswith(hit_addr + "::") and list(rf[1]) == list(ra[1])
              and rb[1] is True and list(rfa[1]) == [hit_addr])
        if not ok:
            ctx.disagreement(case, f"{kind} rule whose only occurrence ({want_records} instructions from {hit_addr}) straddles instruction index {B} of {size}: "
                                   f"all-matches {[(h[:20], h.count('|')) for h in ra[1][:3]]}, first-match {[(h[:20], h.count('|')) for h in rf[1][:3]]}, bool {rb[1]}, first address {rfa[1]}")


def replay_long_variable(ctx, case):
    # regenerated from the recorded parameters (the filler instructions do not matter)
    class C:
        pass
    import random
    ws = real.Workspace()
    saved = (ctx.shard, ctx.nshards)
    for seed in range(6):
        ctx.rng = random.Random(seed)
        idx = BOUNDS.index(case["B"])
        ctx.shard, ctx.nshards = idx, len(BOUNDS)
        long_variable_stratum(ctx, ws, 1)
    ctx.shard, ctx.nshards = saved


def empty_capable_probes(ctx, ws):
    """Rules that can match the empty sequence AND real instructions (an optional element as the first alternative of an $or, an optional
    element followed by a required one): the scan still reports every instruction that starts a match - between two reported
    matches no instruction starts one. Only the non-empty elements of the result are judged (what a scan reports for the empty
    matches in between is not fixed by the statement). By construction, identical at every seed."""
    from jv import listing as L
    rows = ["nop", "ret", "nop", "push", "ret", "ret", "nop", "push", "push", "nop"]
    insts, addr = [], 0x401000
    for m in rows:
        insts.append(L.SInst(addr, m, ["%rax"] if m == "push" else [], None, None, 1))
        addr += 1
    lp = ws.write("empty_capable.s", L.render(insts, ctx.rng, labels=False))
    A = lambda k: format(0x401000 + k, "x")     # noqa: E731
    cases = [([{"$or": [{"push": {"times": {"min": 0, "max": 1}}}, "ret"]}], [A(1), A(3), A(4), A(5), A(7), A(8)]),
             ([{"$or": [{"zzz": {"times": {"min": 0, "max": 1}}}, "ret"]}], [A(1), A(4), A(5)]),
             ([{"$or": ["ret", {"push": {"times": {"min": 0, "max": 2}}}]}], [A(1), A(3), A(4), A(5), A(7)]),
             ([{"push": {"times": {"min": 0, "max": 2}}}], [A(3), A(7)]),
             ([{"$or": [{"nop": {"times": {"min": 0, "max": 1}}}, {"$and": ["push", "ret"]}]}], [A(0), A(2), A(3), A(6), A(9)])]
    for pat, want in cases:
        rule = real.dump_rule({"config": {"mnemonics-full-match": True}, "pattern": pat})
        r = real.match(ws.write("empty_capable.yaml", rule), lp, ret="list", search="all", only_addr=True)
        ctx.ran()
        ctx.event("empty_capable_rule_probes")
        got = [a for a in (r[1] if r[0] == "ok" else []) if a != ""]
        ctx.case(("empty-capable", rule), True, stratum="rules that also match the empty sequence", outcome="found" if got else "not found")
        if r[0] != "ok" or got != want:
            ctx.disagreement({"empty_capable": True, "rule": rule},
                             f"a rule that also matches the empty sequence: the non-empty findings start at {got[:10]}, the instructions that start a match are {want} (result {str(r[:2])[:120]})")


def run_shard(ctx):
    d = drive.Driver(ctx, feat, flags="random", styles=("runs", "runs", "tiny", "mixed", "multisec", "kernel"), judge_model=False, extra=monitor)
    d.loop(2500, 250000)
    long_listing_stratum(ctx, d.ws, ctx.share(48, 800))
    long_variable_stratum(ctx, d.ws, ctx.share(32, 600))
    gap_and_range_stratum(ctx, d.ws, ctx.share(160, 8000))
    if ctx.shard == 1 % ctx.nshards:
        empty_capable_probes(ctx, d.ws)


def replay(ctx, case):
    if case.get("empty_capable"):
        return empty_capable_probes(ctx, real.Workspace())
    ws = real.Workspace()
    if case.get("long_listing"):
        long_listing_stratum(ctx, ws, 8)
        return
    if case.get("long_variable"):
        return replay_long_variable(ctx, case)
    if case.get("gap_listing"):
        return replay_gap(ctx, case)
    prep = dsl.prep_from_case(ws, case)
    if not prep.verify(ws):
        ctx.inconc("parser disagreement: " + prep.why)
        return

    class D:
        pass
    d = D()
    d.ctx, d.ws, d.macros = ctx, ws, None
    o = dsl.evaluate(ws, prep, case["rule"])
    ctx.ran()
    monitor(d, yaml.safe_load(case["rule"]), case["rule"], prep, o)
