"""C11 - all-matches mode is a complete leftmost non-overlapping scan."""
import regex
import yaml

from jv import drive, dsl, model as M, real, rulegen as RG

LEVEL = "exploration"
RULE = ("S-syn listings with planted runs / repeated blocks (adjacent, separated and overlapping-candidate occurrences, "
        "e.g. 'a a a a' for the rule 'a a') x multi-instruction rules that cannot match the empty sequence. Offline trace "
        "checker: with P = the real compiled rule and S = the real stream, the harness performs its own scan - at every "
        "character position p >= pos test P.match(S, p), emit the first success, continue at its end - and the list "
        "returned by all-matches mode must equal that scan element by element (hence pairwise disjoint, increasing, every "
        "element a match, nothing skipped in any gap or after the last); first-match mode must return exactly its first "
        "element; long listings (2 000-30 000 instructions) with a marker planted at known positions incl. the very end must be reported "
        "exactly; asking the same matcher object a second time must give the same lists; addresses must increase numerically. Non-trivial = the scan yields >= 2 hits or there are overlapping "
        "candidates (a position inside a reported hit also starts a match); distinct = (rule, listing).")
FLOOR = {"quick": 150, "thorough": 2000}
ANCHOR_HINTS = ["consumer", "matched_observers"]
REQUIRED_EVENTS = ["scans_compared"]


def feat(rng):
    return RG.Feat(operands=0.4, groups=0.25, nots=0.1, times_item=0.3, group_times=0.3, max_depth=1,
                   max_spine=rng.choice([1, 2, 2, 3]))


def own_scan(P, S):
    out, pos, overlap = [], 0, False
    n = len(S)
    while pos <= n:
        m = None
        p = pos
        while p <= n:
            m = P.match(S, p)
            if m:
                break
            p += 1
        if not m:
            break
        out.append((m.start(), m.end(), m.group(0)))
        if not overlap:
            # overlapping candidate: some record start strictly inside the hit also starts a match
            q = S.find("|", m.start(), m.end() - 1)
            while q >= 0 and q + 1 < m.end():
                if P.match(S, q + 1):
                    overlap = True
                    break
                q = S.find("|", q + 1, m.end() - 1)
        pos = m.end() if m.end() > m.start() else m.end() + 1
    return out, overlap


def monitor(driver, doc, text, prep, o):
    ctx = driver.ctx
    if o.status != "ok" or o.regex is None:
        return
    case = dsl.case_doc(text, prep, "c11")
    try:
        P = regex.compile(o.regex)
    except regex.error:
        ctx.inconc("rule regex does not compile in the harness")
        return
    scan, overlap = own_scan(P, prep.stream)
    want = [t for _, _, t in scan]
    if any(t == "" for t in want):
        ctx.event("skipped_empty_match")
        return
    ctx.event("scans_compared")
    ctx.event("scan_hits", len(want))
    nontrivial = len(want) >= 2 or overlap
    ctx.case(("c11", text, prep.expect), nontrivial, stratum="overlapping-candidates" if overlap else ("multi-hit" if len(want) >= 2 else "single/none"))
    if overlap:
        ctx.sample("overlapping-candidates", {"rule": text, "hits": want[:4], "stream_head": prep.stream[:300]})
    if list(o.hits) != want:
        ctx.disagreement(case, f"all-matches returned {len(o.hits)} hits {[h[:40] for h in o.hits[:4]]}, the harness's leftmost "
                               f"non-overlapping scan with the same compiled rule yields {len(want)} {[h[:40] for h in want[:4]]}")
        return
    rp = driver.ws.path("rule.yaml")
    rf = real.match(rp, prep.path, ret="list", search="first", only_addr=False, macros=driver.macros)
    ctx.ran()
    if rf[0] != "ok":
        ctx.disagreement(case, f"first-match mode raised {rf[1]} although all-matches succeeded")
        return
    if list(rf[1]) != want[:1]:
        ctx.disagreement(case, f"first-match mode returned {rf[1]}, the first element of the scan is {want[:1]}")
        return
    # the same matcher object asked again must report the same scan (no hits carried over from the previous scan)
    for search in ("all", "first"):
        rt = real.match_twice(rp, prep.path, ret="list", search=search, only_addr=False, macros=driver.macros)
        ctx.ran(2)
        expect = want if search == "all" else want[:1]
        if rt[0] != "ok" or list(rt[1]) != expect or list(rt[2]) != expect:
            ctx.disagreement(case, f"perform_matching() called twice on one matcher ({search}-match): first {str(rt[1])[:120]}, second {str(rt[2])[:160]}, "
                                   f"the scan yields {[h[:30] for h in expect[:4]]}")
            return
    ctx.event("repeated_scans_compared")
    addrs = [int(t.split("::")[0], 16) for t in want if "::" in t and t.split("::")[0]]
    listing_addrs = [int(a, 16) for a, _, _ in prep.expect]
    increasing_listing = all(b > a for a, b in zip(listing_addrs, listing_addrs[1:]))     # relocatable-object style listings restart at 0
    # address-only mode must report one address per hit, in the same order
    ra = real.match(rp, prep.path, ret="list", search="all", only_addr=True, macros=driver.macros)
    ctx.ran()
    if ra[0] != "ok" or list(ra[1]) != [t.split("::")[0] for t in want]:
        ctx.disagreement(case, f"address-only all-matches {str(ra[1])[:120]} is not one address per element of the scan {[t.split('::')[0] for t in want][:8]}")
        return
    if increasing_listing and len(addrs) == len(want) and any(b <= a for a, b in zip(addrs, addrs[1:])):
        ctx.disagreement(case, f"reported addresses are not increasing: {addrs[:8]}")


def long_listing_stratum(ctx, ws, n):
    """Long listings (2 000 - 30 000 instructions) with a marker sequence planted at known positions, also at the very
    end: all-matches must report exactly the planted addresses (ground truth by construction, independent of the stream)."""
    from jv import listing as L
    rng = ctx.rng
    for _ in range(n):
        size = rng.choice([2000, 5000, 12000, 30000])
        body = L.gen_listing(rng, 40, mnems=["mov", "add", "push", "pop", "lea", "cmp", "xor"], start=0x401000)
        insts, addr, planted = [], 0x401000, []
        # marker = the two-instruction sequence 'hlt; cli'; planted at random places, at the very end, and so that it straddles
        # index boundaries that block-wise processing would use (2^k - 1 for k = 9..14)
        cand = [size - 2] + [rng.randrange(size - 2) for _ in range(rng.randint(0, 4))] + [2 ** k - 1 for k in range(9, 15) if 2 ** k < size - 2 and rng.random() < 0.7]
        r5 = rng.random()
        if r5 < 0.35:
            bounds = [2 ** k - 1 for k in range(9, 15) if 2 ** k < size - 2]
            cand = [rng.choice(bounds)] + ([size - 2] if rng.random() < 0.5 else [])      # the FIRST occurrence straddles a boundary
        elif r5 < 0.5:
            cand = [max(c for c in cand if c < size - 2)] if any(c < size - 2 for c in cand) else cand      # a single occurrence, late
        marks, last = [], -5
        for m in sorted(set(cand)):
            if m - last >= 3:
                marks.append(m)
                last = m
        markset = set(marks)
        k = 0
        while len(insts) < size:
            src = body[k % len(body)]
            k += 1
            if len(insts) in markset:
                planted.append(format(addr, "x"))
                insts.append(L.SInst(addr, "hlt", [], None, None, 1))
                insts.append(L.SInst(addr + 1, "cli", [], None, None, 1))
                addr += 2
            else:
                insts.append(L.SInst(addr, src.mnem, list(src.ops), None, None, src.nbytes))
                addr += src.nbytes
        lp = ws.write("long.s", L.render(insts, rng, labels=False))
        rp = ws.write("long.yaml", "config:\n  mnemonics-full-match: true\npattern:\n  - hlt\n  - cli\n")
        r = real.match(rp, lp, ret="list", search="all", only_addr=True)
        rf = real.match(rp, lp, ret="list", search="first", only_addr=True)
        ctx.ran(2)
        ctx.event("long_listings_scanned")
        ctx.case(("long", size, tuple(planted)), True, stratum=f"long listing {size}")
        if r[0] != "ok" or list(r[1]) != planted:
            ctx.disagreement({"long_listing": True, "size": size, "planted": planted, "reported": str(r[1])[:300]},
                             f"listing of {size} instructions with 'hlt; cli' planted at {planted[-4:]} (last address {planted[-1]}): all-matches reported {str(r[1])[:200]}")
            continue
        if rf[0] != "ok" or list(rf[1]) != planted[:1]:
            ctx.disagreement({"long_listing": True, "size": size, "planted": planted}, f"first-match reported {str(rf[1])[:100]}, expected {planted[:1]}")
            continue
        ctx.sample("long-listing", {"instructions": size, "planted": planted, "reported": list(r[1])})


def run_shard(ctx):
    d = drive.Driver(ctx, feat, flags="random", styles=("runs", "runs", "tiny", "mixed", "multisec"), judge_model=False, extra=monitor)
    d.loop(2500, 250000)
    long_listing_stratum(ctx, d.ws, ctx.share(48, 800))


def replay(ctx, case):
    ws = real.Workspace()
    if case.get("long_listing"):
        long_listing_stratum(ctx, ws, 8)
        return
    prep = dsl.prep_from_case(ws, case)
    if not prep.verify(ws):
        ctx.inconc("parser disagreement: " + prep.why)
        return

    class D:
        pass
    d = D()
    d.ctx, d.ws, d.macros = ctx, ws, None
    o = dsl.evaluate(ws, prep, case["rule"])
    ctx.ran()
    monitor(d, yaml.safe_load(case["rule"]), case["rule"], prep, o)
