"""C12 - boolean, list, first/all and address-only results agree with each other."""
import yaml

from jv import drive, dsl, hooks, real, rulegen as RG

LEVEL = "exploration"
RULE = ("S-syn listings (incl. relocatable-object style listings whose sections restart at address 0, so addresses and whole "
        "records repeat) x rules of all operator kinds (positives, near misses, and rules that can match the empty sequence), each (rule, input) executed through "
        "MasterOfPuppets under all 2x2x2 combinations of return mode (bool/list), search mode (first/all) and address-only "
        "flag (8 real executions). Relations checked: bool == (list non-empty) in each of the 4 (search, address-only) "
        "settings (in 30 % of the sets all eight matcher objects are constructed first and then run in a shuffled order); first-mode list == all-mode list[:1]; address-only element == text before '::' of the corresponding "
        "full-text element; no mode raises unless all do. Hook H1 (wrapper around MatchedObserver.finalize installed from the "
        "harness): observer.matched == bool(observer.addr_list) at finalize, and the hit events seen at regex_matched equal "
        "the returned list. A binary stratum runs the same 8 modes on harness-built ELF objects. Non-trivial = the rule is found in at "
        "least one mode; distinct = (rule, listing).")
FLOOR = {"quick": 150, "thorough": 2000}
ANCHOR_HINTS = ["match.py", "consumer", "matched_observers"]
REQUIRED_EVENTS = ["mode_sets_compared"]     # hook events (observer_finalize_seen) are reported but not required: a renamed class must not stop the check

REC = hooks.Recorder()
_installed = False


def feat(rng):
    if rng.random() < 0.2:
        # rules that can match the empty sequence (every element optional) are in scope here: the modes must still agree
        return RG.Feat(operands=0.4, groups=0.2, times_item=1.0, group_times=1.0, zero_min=0.9, max_depth=1, max_spine=rng.choice([1, 2]))
    return RG.Feat(operands=0.6, groups=0.25, nots=0.15, ogroups=0.1, icaps=0.08, ocaps=0.1, times_item=0.2,
                   group_times=0.2, max_depth=2, max_spine=rng.choice([1, 2, 3]))


def eight_modes(ctx, ws, rule_path, input_path, binary=False, macros=None, prepare_first=None):
    """Run the 8 combinations; returns dict[(ret, search, only_addr)] -> result tuple, plus hook events per run.
    prepare_first: all eight matcher objects (same rule, same input) are constructed before any of them is run, and they are
    run in a shuffled order - each must answer for its own modes."""
    res, ev = {}, {}
    keys = [(ret, search, oa) for ret in ("bool", "list") for search in ("first", "all") for oa in (False, True)]
    if prepare_first is None:
        prepare_first = ctx.rng.random() < 0.3
    if prepare_first == "flip":
        # ONE matcher object, the eight questions asked in a shuffled order by re-setting the attributes of its match_config
        ctx.event("mode_sets_asked_of_one_object_by_flipping_attributes")
        order = list(keys)
        ctx.rng.shuffle(order)
        REC.clear()
        r = real.match_flip(rule_path, input_path, order, binary=binary, macros=macros)
        ctx.ran(8)
        for n, k in enumerate(order):
            res[k] = ("ok", r[1][n], None) if r[0] == "ok" else r
            ev[k] = []
        return res, ev
    if prepare_first:
        ctx.event("mode_sets_with_all_matchers_built_first")
        built = {k: real.build(rule_path, input_path, binary=binary, ret=k[0], search=k[1], only_addr=k[2], macros=macros) for k in keys}
        order = list(keys)
        ctx.rng.shuffle(order)
        for k in order:
            REC.clear()
            res[k] = real.run(built[k])
            ev[k] = list(REC.events)
            ctx.ran()
        return res, ev
    for ret, search, oa in keys:
        REC.clear()
        res[(ret, search, oa)] = real.match(rule_path, input_path, binary=binary, ret=ret, search=search, only_addr=oa, macros=macros)
        ev[(ret, search, oa)] = list(REC.events)
        ctx.ran()
    return res, ev


def check_relations(ctx, case, res, ev):
    kinds = {k: r[0] for k, r in res.items()}
    if len(set(kinds.values())) != 1:
        ctx.disagreement(case, f"some modes raise and others do not: { {str(k): (r[0], r[1] if r[0]=='exc' else None) for k, r in res.items()} }")
        return False
    if "exc" in kinds.values():
        ctx.event("all_modes_raised")
        return False
    for search in ("first", "all"):
        for oa in (False, True):
            b, lst = res[("bool", search, oa)][1], res[("list", search, oa)][1]
            if not isinstance(b, bool) or not isinstance(lst, list):
                ctx.disagreement(case, f"unexpected result types bool-mode={type(b).__name__} list-mode={type(lst).__name__}")
                return False
            if b != bool(lst):
                ctx.disagreement(case, f"bool mode says {b} but list mode returns {lst[:3]} (search={search}, address-only={oa})")
                return False
    for oa in (False, True):
        f, a = res[("list", "first", oa)][1], res[("list", "all", oa)][1]
        if f != a[:1]:
            ctx.disagreement(case, f"first-match list {f} is not the one-element prefix of all-matches {a[:3]} (address-only={oa})")
            return False
    for search in ("first", "all"):
        full, addr = res[("list", search, False)][1], res[("list", search, True)][1]
        if [t.split("::")[0] for t in full] != addr:
            ctx.disagreement(case, f"address-only {addr[:4]} is not the '::' prefix of the full-text elements {[t[:30] for t in full[:4]]} (search={search})")
            return False
    # hook H1
    for k, events in ev.items():
        fin = [e for e in events if e[0] == "observer_finalize"]
        hits = [e[1] for e in events if e[0] == "hit"]
        if fin:
            ctx.event("observer_finalize_seen")
            _, matched, addr_list = fin[-1]
            if matched != bool(addr_list):
                ctx.disagreement(case, f"observer state at finalize: matched={matched} but addr_list={addr_list[:3]} in mode {k}")
                return False
            if k[0] == "list" and hits != res[k][1]:
                ctx.disagreement(case, f"hit events {hits[:3]} differ from the returned list {res[k][1][:3]} in mode {k}")
                return False
    ctx.event("mode_sets_compared")
    return True


def monitor(driver, doc, text, prep, o):
    ctx = driver.ctx
    case = dsl.case_doc(text, prep, "c12")
    rp = driver.ws.path("rule.yaml")
    pf = getattr(driver, "prepare_first", None)
    pf = ctx.rng.choice([False] * 5 + [True] * 3 + ["flip"] * 2) if pf is None else pf
    case["prepare_first"] = pf
    res, ev = eight_modes(ctx, driver.ws, rp, prep.path, prepare_first=pf)
    ok = check_relations(ctx, case, res, ev)
    found = any(r[0] == "ok" and bool(r[1]) for r in res.values())
    ctx.case(("c12", text, prep.expect), found, stratum="found" if found else "not found")
    if ok and found:
        ctx.sample("eight-modes", {"rule": text, "results": {f"{k[0]}/{k[1]}/addr_only={k[2]}": (r[1] if isinstance(r[1], bool) else [x[:50] for x in r[1][:3]]) for k, r in res.items()}})


def install():
    global _installed
    if not _installed:
        hooks.install_observer_hooks(REC)
        _installed = True


def binary_stratum(ctx, ws, n):
    from jv import objd, refline
    rng = ctx.rng
    for _ in range(n):
        blob, secs, bits = objd.random_object(rng, size=(40, 300))
        op = ws.write("o.bin", blob)
        rc, out, _ = objd.disassemble(op)
        rin = [ri for ri in refline.read_listing(out)[0] if ri.parsed.mnemonic.isalnum()] if rc == 0 else []
        if not rin:
            continue
        k = rng.randrange(len(rin))
        pattern = [ri.parsed.mnemonic for ri in rin[k:k + rng.randint(1, 2)]]
        if rng.random() < 0.2:
            pattern.append("zzzz")
        text = real.dump_rule({"pattern": pattern})
        rp = ws.write("rule.yaml", text)
        res, ev = eight_modes(ctx, ws, rp, op, binary=True)
        case = {"rule": text, "object_b64": __import__("base64").b64encode(blob).decode(), "desc": "binary"}
        check_relations(ctx, case, res, ev)
        found = any(r[0] == "ok" and bool(r[1]) for r in res.values())
        ctx.case(("c12-bin", text, __import__("hashlib").sha256(blob).hexdigest()), found, stratum="binary/" + ("found" if found else "not found"))


def range_stratum(ctx, ws, n):
    """Rules whose verdict depends on `config.valid_addr_range` (an item naming `valid_addr`, or the literal target of a branch the
    range covers / does not cover), on listings with many direct branches inside the range BEFORE the place the rule matches: the
    eight ways of asking still agree (the text the matcher sees is the same in every mode, and so is where a hit starts)."""
    from jv import listing as L
    rng = ctx.rng
    for k in range(n):
        base = rng.choice([0x401000, 0x1000, 0x7f0000001000])
        insts, addr = [], base
        nlead = rng.choice([0, 3, 8, 20])
        lo, hi = base + 0x100, base + 0x1ff
        for j in range(nlead):
            insts.append(L.SInst(addr, rng.choice(["call", "jmp", "callq", "je"]), [format(rng.randint(lo, hi), "x")], "<f+0x%x>" % j, None, 5))
            addr += 5
        body = [("mov", ["%rax", "%rbx"]), ("call", [format(rng.randint(lo, hi), "x")]), ("mov", ["%rax", "%rbx"]), ("call", [format(hi + 0x40, "x")]),
                ("jmp", [format(lo, "x")]), ("ret", []), ("mov", ["%rax", "%rbx"]), ("jmp", [format(hi, "x")]), ("nop", [])]
        for m, ops in body:
            insts.append(L.SInst(addr, m, list(ops), None, None, 3))
            addr += 3
        text = L.render(insts, rng)
        lp = ws.write("range.s", text)
        pats = [["mov", {"call": ["valid_addr"]}], ["mov", {"jmp": ["valid_addr"]}], [{"jmp": ["valid_addr"]}, "ret"], ["mov", {"call": [format(hi + 0x40, "x")]}],
                ["mov", {"call": ["valid_addr"]}, "mov", {"call": [{"$not": ["valid_addr"]}]}], [{"$or": ["call", "jmp"], "times": {"min": 1, "max": 3}}, "ret"]]
        pat = pats[(ctx.shard + k) % len(pats)]
        spell = rng.choice([("0x%x", "0x%x"), ("%x", "%x"), ("0x%x", "%x")])
        rule = real.dump_rule({"config": {"valid_addr_range": {"min": spell[0] % lo, "max": spell[1] % hi}}, "pattern": pat})
        rp = ws.write("range_rule.yaml", rule)
        pf = [False, True, "flip"][(ctx.shard + k) % 3]
        res, ev = eight_modes(ctx, ws, rp, lp, prepare_first=pf)
        case = {"rule": rule, "listing": text, "desc": "range", "range_case": True, "prepare_first": pf}
        check_relations(ctx, case, res, ev)
        found = any(r[0] == "ok" and bool(r[1]) for r in res.values())
        ctx.event("range_dependent_mode_sets")
        ctx.case(("c12-range", rule, text), found, stratum="range-dependent/" + ("found" if found else "not found"))


def empty_input_stratum(ctx, ws):
    """Inputs without a single instruction (an objdump banner only, an empty file, a data-only object) x rules every element of which
    is optional (they match the empty sequence) and rules that need an instruction: the eight ways of asking agree here too."""
    from jv import elf
    inputs = [("banner-only listing", ws.write("e1.s", "\nx.o:     file format elf64-x86-64\n\n\nDisassembly of section .text:\n\n0000000000000000 <f>:\n"), False),
              ("empty listing", ws.write("e2.s", ""), False),
              ("data-only object", ws.write("e3.bin", elf.build([elf.Section(".data", bytes(range(64)), 0x600000, False)], 64, None)), True)]
    rules = [[{"nop": {"times": {"min": 0, "max": 1}}}], [{"$or": ["int3", "nop"], "times": {"min": 0, "max": 3}}], [{"nop": {"times": {"min": 0, "max": 2}}}, {"ret": {"times": {"min": 0, "max": 1}}}],
             ["nop"], [{"$not": ["nop"]}]]
    for what, path, binary in inputs:
        for k, pat in enumerate(rules):
            rule = real.dump_rule({"pattern": pat})
            rp = ws.write("empty_rule.yaml", rule)
            pf = [False, True, "flip"][k % 3]
            res, ev = eight_modes(ctx, ws, rp, path, binary=binary, prepare_first=pf)
            case = {"rule": rule, "desc": "empty-input", "empty_input": what, "prepare_first": pf}
            check_relations(ctx, case, res, ev)
            ctx.event("mode_sets_on_inputs_without_instructions")
            found = any(r[0] == "ok" and bool(r[1]) for r in res.values())
            ctx.case(("c12-empty", rule, what), True, stratum="input without instructions/" + ("found" if found else "not found"))


def run_shard(ctx):
    install()
    for m in REC.missing:
        ctx.event("hook_missing:" + m)
    d = drive.Driver(ctx, feat, flags="random", styles=("mixed", "runs", "tiny", "dups", "multisec", "kernel"), judge_model=False, extra=monitor,
                     allow_empty=True)
    d.loop(800, 80000)
    binary_stratum(ctx, d.ws, ctx.share(64, 6000))
    range_stratum(ctx, d.ws, ctx.share(48, 3000))
    if ctx.shard == 2 % ctx.nshards:
        empty_input_stratum(ctx, d.ws)
    # long listings: first-match must be the head of all-matches also when the first occurrence lies deep in the listing
    from jv.props import c11
    c11.long_listing_stratum(ctx, d.ws, ctx.share(16, 300))
    c11.long_variable_stratum(ctx, d.ws, ctx.share(32, 600))


def replay(ctx, case):
    install()
    ws = real.Workspace()
    if case.get("long_listing"):
        from jv.props import c11
        c11.long_listing_stratum(ctx, ws, 8)
        return
    if case.get("long_variable"):
        from jv.props import c11
        return c11.replay_long_variable(ctx, case)
    if case.get("empty_input"):
        return empty_input_stratum(ctx, ws)
    if case.get("range_case"):
        res, ev = eight_modes(ctx, ws, ws.write("range_rule.yaml", case["rule"]), ws.write("range.s", case["listing"]), prepare_first=case.get("prepare_first") or False)
        check_relations(ctx, case, res, ev)
        return
    if case.get("object_b64"):
        op = ws.write("o.bin", __import__("base64").b64decode(case["object_b64"]))
        res, ev = eight_modes(ctx, ws, ws.write("rule.yaml", case["rule"]), op, binary=True)
        check_relations(ctx, case, res, ev)
        return
    prep = dsl.prep_from_case(ws, case)

    class D:
        pass
    d = D()
    d.ctx, d.ws, d.macros = ctx, ws, None
    d.prepare_first = case.get("prepare_first") or False
    ws.write("rule.yaml", case["rule"])
    monitor(d, yaml.safe_load(case["rule"]), case["rule"], prep, None)
