"""C13 - macro expansion is equivalent to manual inlining."""
import copy

from jv import drive, dsl, macrogen, real, rulegen as RG

LEVEL = "exploration"
RULE = ("A macro-free rule (S-rule, all operator kinds) is factored by 1-5 random inverse-inlining steps into macros in the "
        "supported use forms - whole list item (string-bodied and one-element-list-bodied), string macro inside a name, string "
        "macro with a times body, whole dict value ($deref fields), parameterised macros with 1-3 formals used 1-4 times with "
        "equal and different arguments, macros factored out of the body of an earlier-listed macro - and the definitions are "
        "split in order between 0-3 extra macro files and the rule file. The inlined twin is ground truth by construction. "
        "Oracle: Yaml2Regex(macro rule).produce_regex() == Yaml2Regex(inlined).produce_regex(); when the texts differ both are "
        "run on the source listing and 20 one-step mutants of it and any difference in the hit lists is the violation; the same "
        "Yaml2Regex instance asked twice must give the same text; sequences of rules compiled in one process against the same extra "
        "macro file (whose macros refer to macros each rule defines differently) must each equal their own inlined twin. Non-trivial = at least one factoring step was applied and "
        "both rules compile; distinct = (macro rule text, extra files).")
FLOOR = {"quick": 300, "thorough": 4000}
ANCHOR_HINTS = ["macro_expander", "macro_args_resolver", "args_mapping_generator", "yaml2regex"]
REQUIRED_EVENTS = ["twins_compared"]


def feat(rng):
    return RG.Feat(operands=0.8, groups=0.3, nots=0.1, ogroups=0.2, deref=0.5, times_item=0.3, group_times=0.2,
                   icaps=0.05, ocaps=0.1, regfam=0.15, max_depth=2, max_spine=rng.choice([1, 2, 3, 4]))


def behaviour(ctx, ws, prep, rule_a, files_a, rule_b):
    """Compare hit lists of two rules on the source listing and mutants. Returns description of first difference or None."""
    listings = [prep.path]
    for i in range(20):
        sin, _ = RG.mutate_listing(ctx.rng, prep.sinsts, 0, len(prep.sinsts) - 1)
        from jv import listing as L
        listings.append(ws.write(f"beh{i}.s", L.render(sin, ctx.rng)))
    pa, pb = ws.write("ra.yaml", rule_a), ws.write("rb.yaml", rule_b)
    for lp in listings:
        a = real.match(pa, lp, ret="list", search="all", macros=files_a or None)
        b = real.match(pb, lp, ret="list", search="all")
        ctx.ran(2)
        if a[:2] != b[:2]:
            return f"on listing {lp}: macro rule -> {str(a[:2])[:160]}, inlined -> {str(b[:2])[:160]}"
    return None


def one_case(ctx, ws, prep, pattern, probe=False):
    rng = ctx.rng
    decoys = [f for _, _, ops in prep.expect for f in ops if RG.clean(f)][:30] + ["%rax", "0x10", "rsp"]
    steps = rng.randint(1, 5)
    inl, mac, macros, forms = macrogen.factor(rng, pattern, decoys, steps, resub_probe=probe)
    if not macros:
        ctx.event("nothing_factored")
        return
    if RG.pattern_cost(inl) > 600:
        ctx.event("skipped_too_large_after_extra_uses")
        return
    cut = rng.randint(0, len(macros)) if rng.random() < 0.6 else 0
    ext, own = macros[:cut], macros[cut:]
    files = []
    if ext:
        nf = rng.randint(1, min(3, len(ext)))
        bounds = sorted(rng.sample(range(1, len(ext)), nf - 1)) if nf > 1 else []
        parts = [ext[a:b] for a, b in zip([0] + bounds, bounds + [len(ext)])]
        for i, part in enumerate(parts):
            files.append(ws.write(f"m{i}.yaml", real.dump_rule({"macros": part})))
    doc_m = {}
    if own:
        doc_m["macros"] = own
    doc_m["pattern"] = mac
    text_m = real.dump_rule(doc_m)
    text_i = real.dump_rule({"pattern": inl})
    pm, pi = ws.write("mac.yaml", text_m), ws.write("inl.yaml", text_i)
    rm = real.compile_rule(pm, files or None)
    ri = real.compile_rule(pi)
    ctx.ran(2)
    case = {"macro_rule": text_m, "extra_macro_files": [open(f).read() for f in files], "inlined_rule": text_i, "forms": forms,
            "listing": prep.text, "sinsts": [[s.addr, s.mnem, s.ops, s.annotation, s.comment, s.nbytes] for s in prep.sinsts]}
    key = "macro_arg_resubstitution" if "param:arg-value-equals-later-formal" in forms else None
    for f in forms:
        ctx.event("form:" + f.split(":")[0] + (":" + f.split(":")[1] if f.startswith("param") or f.startswith("item") else ""))
    ok_both = rm[0] == "ok" and ri[0] == "ok"
    ctx.case((text_m, tuple(case["extra_macro_files"])), ok_both, stratum=f"{len(macros)} macros/{len(files)} files",
             outcome="both compile" if ok_both else "both raise" if rm[0] == ri[0] else "one raises")
    if rm[0] != ri[0]:
        ctx.disagreement(case, f"macro rule: {rm[:2]}; inlined rule: {str(ri[:2])[:200]} (forms {forms})", key)
        return
    if not ok_both:
        ctx.event("both_raise")
        return
    ctx.event("twins_compared")
    # same instance asked twice
    try:
        y = real.y2r.Yaml2Regex(pm, macros_from_terminal=files or None)
        r1, r2 = y.produce_regex(), y.produce_regex()
        ctx.ran(2)
        if r1 != r2 or r1 != rm[1]:
            ctx.disagreement(case, "the same Yaml2Regex instance produced different regexes on two calls (definitions altered by use)", key)
            return
        ctx.event("same_instance_twice")
    except Exception as e:  # noqa: BLE001
        ctx.disagreement(case, f"second produce_regex() raised {type(e).__name__}: {e}", key)
        return
    if rm[1] == ri[1]:
        ctx.sample(forms[0].split(":")[0], {"macro_rule": text_m, "extra_macro_files": case["extra_macro_files"], "inlined_rule": text_i})
        return
    ctx.event("regex_text_differs")
    diff = behaviour(ctx, ws, prep, text_m, files, text_i)
    if diff:
        ctx.disagreement(case, f"macro rule and manually inlined rule match differently (forms {forms}): {diff}", key)
    else:
        ctx.event("text_differs_behaviour_equal")


def library_sequence_stratum(ctx, ws, n):
    """Several rules compiled one after another in this process against the SAME extra macro file (same path, unchanged
    content) whose list-bodied macros refer to macros that every rule defines for itself, differently each time. Each rule
    must still compile to the matcher of its own inlined twin: the library definitions are not altered by being used."""
    rng = ctx.rng
    for k in range(n):
        lib_name, own = rng.choice(["@two", "@lib_pair", "@L"]), rng.choice(["@x", "@own_reg", "@o"])
        body = rng.choice([[{"$and": [own, own]}], [{"mov": [own, "%rax"]}], [{"$or": [own, "hlt"]}], [{"push": [{"$or": [own, "zz"]}]}]])
        lib = ws.write(f"lib_{k}.yaml", real.dump_rule({"macros": [{"name": lib_name, "pattern": body}]}))
        values = rng.sample(["push", "pop", "%rbx", "rcx", "call", "0x10", "ret", "%rsi"], rng.randint(2, 4))
        for step, v in enumerate(values):
            use = rng.choice([[lib_name], ["nop", lib_name], [lib_name, lib_name]])
            text_m = real.dump_rule({"macros": [{"name": own, "pattern": v}], "pattern": use})

            def inline(node):
                if isinstance(node, str):
                    return node.replace(own, v)
                if isinstance(node, list):
                    return [inline(x) for x in node]
                if isinstance(node, dict):
                    return {inline(a): inline(b) for a, b in node.items()}
                return node
            inl = [inline(body[0]) if x == lib_name else x for x in use]
            text_i = real.dump_rule({"pattern": inl})
            rm = real.compile_rule(ws.write("seq_m.yaml", text_m), [lib])
            ri = real.compile_rule(ws.write("seq_i.yaml", text_i))
            ctx.ran(2)
            ctx.event("library_sequence_steps")
            ctx.case(("libseq", k, step, text_m), rm[0] == "ok" and ri[0] == "ok", stratum="library sequence")
            if rm[:2] != ri[:2]:
                ctx.disagreement({"macro_rule": text_m, "extra_macro_files": [open(lib).read()], "inlined_rule": text_i, "forms": ["library-sequence"],
                                  "sequence_position": step, "earlier_values": values[:step], "listing": "", "sinsts": []},
                                 f"step {step} of a sequence of rules sharing one extra macro file: rule with {own}={v!r} compiles to {str(rm[1])[:160]!r}, "
                                 f"its inlined twin to {str(ri[1])[:160]!r} (earlier rules defined {own} as {values[:step]})")
                break


NESTED_MACROS = [
    {"name": "@guarded", "args": ["reg", "action"], "pattern": [{"$and": [{"test": ["reg", "reg"]}, "action"]}]},
    {"name": "@zero_reg", "args": ["reg"], "pattern": [{"$or": [{"xor": ["reg", "reg"]}, {"mov": [0, "reg"]}]}]},
    {"name": "@twice", "args": ["what"], "pattern": [{"$and": ["what", "what"]}]},
    {"name": "@save", "args": ["reg"], "pattern": [{"push": ["reg"]}]},
]


def _inline_nested(node):
    """Manual inlining of the four NESTED_MACROS calls (written out by hand on purpose: no expander code shared with JASM)."""
    if isinstance(node, list):
        return [_inline_nested(x) for x in node]
    if isinstance(node, dict):
        if "@guarded" in node:
            a = node["@guarded"] if isinstance(node["@guarded"], dict) else node
            return {"$and": [{"test": [a["reg"], a["reg"]]}, _inline_nested(a["action"])]}
        if "@zero_reg" in node:
            a = node["@zero_reg"] if isinstance(node["@zero_reg"], dict) else node
            return {"$or": [{"xor": [a["reg"], a["reg"]]}, {"mov": [0, a["reg"]]}]}
        if "@twice" in node:
            a = node["@twice"] if isinstance(node["@twice"], dict) else node
            return {"$and": [_inline_nested(a["what"]), _inline_nested(a["what"])]}
        if "@save" in node:
            a = node["@save"] if isinstance(node["@save"], dict) else node
            return {"push": [a["reg"]]}
        return {k: _inline_nested(v) for k, v in node.items()}
    return node


def nested_call_probes(ctx, ws):
    """An argument whose value is itself a call of another macro - both macros using the SAME formal name - in every spelling of
    the two calls (arguments beside / under the call key, inner call before / after the sibling argument): each call receives its
    own arguments, exactly as in the rule inlined by hand. Identical at every seed."""
    from jv import listing as L
    rows = [("test", ["%edi", "%edi"]), ("xor", ["%eax", "%eax"]), ("ret", []), ("test", ["%eax", "%eax"]), ("xor", ["%edi", "%edi"]), ("ret", []),
            ("test", ["%edi", "%edi"]), ("mov", ["$0x0", "%eax"]), ("ret", []), ("push", ["%rbx"]), ("push", ["%rbx"]), ("ret", []), ("push", ["%rbx"]), ("push", ["%rcx"]), ("ret", []),
            ("test", ["%esi", "%esi"]), ("push", ["%rsi"]), ("push", ["%rsi"]), ("ret", [])]
    insts, addr = [], 0x401000
    for m, ops in rows:
        insts.append(L.SInst(addr, m, list(ops), None, None, 2))
        addr += 2
    text = L.render(insts, ctx.rng, labels=False)
    lp = ws.write("nested.s", text)
    inner_a = {"@zero_reg": None, "reg": "eax"}
    inner_b = {"@zero_reg": {"reg": "eax"}}
    calls = []
    for inner in (inner_a, inner_b):
        calls += [{"@guarded": None, "action": inner, "reg": "edi"}, {"@guarded": None, "reg": "edi", "action": inner},
                  {"@guarded": {"action": inner, "reg": "edi"}}, {"@guarded": {"reg": "edi", "action": inner}}]
    calls += [{"@twice": None, "what": {"@save": None, "reg": "rbx"}}, {"@twice": {"what": {"@save": {"reg": "rbx"}}}},
              {"@guarded": None, "reg": "esi", "action": {"@twice": None, "what": {"@save": None, "reg": "rsi"}}},
              {"@guarded": None, "action": {"@twice": {"what": {"@save": {"reg": "rsi"}}}}, "reg": "esi"},
              {"@twice": None, "what": {"@guarded": None, "reg": "edi", "action": {"@zero_reg": None, "reg": "eax"}}}]
    for call in calls:
        pat = [call, "ret"]
        text_m = real.dump_rule({"macros": NESTED_MACROS, "pattern": pat})
        text_i = real.dump_rule({"pattern": _inline_nested(pat)})
        pm, pi = ws.write("nest_m.yaml", text_m), ws.write("nest_i.yaml", text_i)
        a = real.match(pm, lp, ret="list", search="all")
        b = real.match(pi, lp, ret="list", search="all")
        ctx.ran(2)
        ctx.event("nested_call_probes")
        ctx.case(("nested-call", text_m), b[0] == "ok" and bool(b[1]), stratum="call as argument of a call", outcome="found" if a[0] == "ok" and a[1] else "not found")
        if a[:2] != b[:2]:
            ctx.disagreement({"macro_rule": text_m, "extra_macro_files": [], "inlined_rule": text_i, "forms": ["nested-call"], "listing": text,
                              "sinsts": [[x.addr, x.mnem, x.ops, x.annotation, x.comment, x.nbytes] for x in insts]},
                             f"a call whose argument is a call: macro rule -> {str(a[:2])[:160]}, inlined by hand -> {str(b[:2])[:160]}")


def times_body_probes(ctx, ws):
    """A string macro used as the KEY of an item whose body is a `times` entry, for every kind of count (0, 1, n, {min: 0, max: 0},
    {min: 0, max: n}, only min, only max): the rule compiles to what the rule with the macro's text written out compiles to.
    Identical at every seed."""
    for body in ("nop", "no", "p"):
        for t in (0, 1, 2, 3, {"min": 0, "max": 0}, {"min": 0, "max": 2}, {"min": 1, "max": 1}, {"min": 2, "max": 3}, {"max": 2}, {"min": 0}):
            for name in ("@n", "@gp-reg_", "@a_very_long_macro_name_H_"):
                text_m = real.dump_rule({"macros": [{"name": name, "pattern": body}], "pattern": ["push", {name: {"times": t}}, "ret"]})
                text_i = real.dump_rule({"pattern": ["push", {body: {"times": t}}, "ret"]})
                rm, ri = real.compile_rule(ws.write("tb_m.yaml", text_m)), real.compile_rule(ws.write("tb_i.yaml", text_i))
                ctx.ran(2)
                ctx.event("times_body_probes")
                ctx.case(("times-body", text_m), True, stratum="string macro with a times body", outcome=rm[0])
                if rm[:2] != ri[:2]:
                    ctx.disagreement({"macro_rule": text_m, "extra_macro_files": [], "inlined_rule": text_i, "forms": ["times-body-probe"], "listing": "", "sinsts": []},
                                     f"string macro {name} = {body!r} with the body times: {t}: macro rule -> {str(rm[:2])[:200]}; written out -> {str(ri[:2])[:200]}")


def duplicate_definition_probes(ctx, ws):
    """One macro name defined more than once (in a library and again in the rule, or in two libraries) with a macro in between whose body
    uses that name: definitions are applied one after the other in list order, so the later copy expands what the macro in between
    brought in, and the rule compiles to what the rule written out by hand compiles to. Identical at every seed."""
    cases = [
        ([[{"name": "@acc", "pattern": "%eax"}]], [{"name": "@clear", "pattern": [{"xor": ["@acc", "@acc"]}]}, {"name": "@acc", "pattern": "%eax"}], ["@clear", "ret"],
         [{"xor": ["%eax", "%eax"]}, "ret"]),
        ([[{"name": "@hex", "pattern": "10"}, {"name": "@load_const", "pattern": [{"mov": ["0x@hex", "%eax"]}]}], [{"name": "@hex", "pattern": "10"}]], [], ["@load_const"],
         [{"mov": ["0x10", "%eax"]}]),
        ([[{"name": "@r", "pattern": "rbx"}]], [{"name": "@save", "pattern": [{"push": ["%@r"]}]}, {"name": "@r", "pattern": "rbx"}, {"name": "@both", "pattern": [{"$and": ["@save", {"pop": ["%@r"]}]}]},
                                                  {"name": "@save", "pattern": [{"push": ["%@r"]}]}, {"name": "@r", "pattern": "rbx"}], ["@both", "ret"],
         [{"$and": [{"push": ["%rbx"]}, {"pop": ["%rbx"]}]}, "ret"]),
        ([], [{"name": "@x", "pattern": "nop"}, {"name": "@two", "pattern": [{"$and": ["@x", "@x"]}]}, {"name": "@x", "pattern": "nop"}], ["@two"], [{"$and": ["nop", "nop"]}]),
    ]
    for libs, own, pat, inlined in cases:
        files = [ws.write(f"dup{i}.yaml", real.dump_rule({"macros": m})) for i, m in enumerate(libs)]
        text_m = real.dump_rule({**({"macros": own} if own else {}), "pattern": pat})
        text_i = real.dump_rule({"pattern": inlined})
        rm, ri = real.compile_rule(ws.write("dup_m.yaml", text_m), files or None), real.compile_rule(ws.write("dup_i.yaml", text_i))
        ctx.ran(2)
        ctx.event("duplicate_definition_probes")
        ctx.case(("dup-def", text_m, len(files)), True, stratum="a macro name defined more than once", outcome=rm[0])
        if rm[:2] != ri[:2]:
            ctx.disagreement({"macro_rule": text_m, "extra_macro_files": [open(f).read() for f in files], "inlined_rule": text_i, "forms": ["times-body-probe"], "listing": "", "sinsts": []},
                             f"a macro name defined more than once with a user in between: macro rule -> {str(rm[:2])[:200]}; written out -> {str(ri[:2])[:200]}")


def same_call_other_body_probes(ctx, ws):
    """Two rules compiled one after the other in one process: the same macro name, the very same call, another body - each rule compiles to
    what its own written-out form compiles to ("several uses ... do not influence each other", also across rules). Identical at every seed."""
    bodies = [[{"push": ["r"]}], [{"pop": ["r"]}], [{"$or": [{"push": ["r"]}, {"inc": ["r"]}]}], [{"push": ["r"]}]]
    for spelling in ("beside", "nested"):
        for k, body in enumerate(bodies):
            call = {"@p": None, "r": "%rbx"} if spelling == "beside" else {"@p": {"r": "%rbx"}}
            text_m = real.dump_rule({"macros": [{"name": "@p", "args": ["r"], "pattern": body}], "pattern": [call, "ret"]})
            import json as _json
            inl = _json.loads(_json.dumps(body).replace('"r"', '"%rbx"'))
            text_i = real.dump_rule({"pattern": inl + ["ret"]})
            rm, ri = real.compile_rule(ws.write("scb_m.yaml", text_m)), real.compile_rule(ws.write("scb_i.yaml", text_i))
            ctx.ran(2)
            ctx.event("same_call_other_body_probes")
            ctx.case(("same-call-other-body", spelling, k), True, stratum="the same call under another definition", outcome=rm[0])
            if rm[:2] != ri[:2]:
                ctx.disagreement({"macro_rule": text_m, "extra_macro_files": [], "inlined_rule": text_i, "forms": ["times-body-probe"], "listing": "", "sinsts": []},
                                 f"rule {k} of a sequence that repeats one call under other definitions of the macro: macro rule -> {str(rm[:2])[:200]}; written out -> {str(ri[:2])[:200]}")


def run_shard(ctx):
    d = drive.Driver(ctx, feat, flags="none", styles=("mixed", "dups", "runs"))
    library_sequence_stratum(ctx, d.ws, ctx.share(48, 2000))
    if ctx.shard == 3 % ctx.nshards:
        nested_call_probes(ctx, d.ws)
    if ctx.shard == 4 % ctx.nshards:
        times_body_probes(ctx, d.ws)
    if ctx.shard == 5 % ctx.nshards:
        duplicate_definition_probes(ctx, d.ws)
    if ctx.shard == 6 % ctx.nshards:
        same_call_other_body_probes(ctx, d.ws)
    n = ctx.share(2000, 250000)
    done = 0
    while done < n:
        prep = d.new_listing()
        for _ in range(8):
            gen = RG.RuleGen(ctx.rng, prep.sinsts, feat(ctx.rng))
            pattern = gen.rule()
            if not pattern or RG.pattern_cost(pattern) > 300:
                continue
            one_case(ctx, d.ws, prep, pattern, probe=(ctx.rng.random() < 0.05))
            done += 1


def replay(ctx, case):
    ws = real.Workspace()
    files = [ws.write(f"m{i}.yaml", t) for i, t in enumerate(case["extra_macro_files"])]
    pm, pi = ws.write("mac.yaml", case["macro_rule"]), ws.write("inl.yaml", case["inlined_rule"])
    rm, ri = real.compile_rule(pm, files or None), real.compile_rule(pi)
    ctx.ran(2)
    key = "macro_arg_resubstitution" if "param:arg-value-equals-later-formal" in case.get("forms", []) else None
    if rm[0] != ri[0]:
        ctx.disagreement(case, f"macro rule: {rm[:2]}; inlined rule: {str(ri[:2])[:200]}", key)
    elif rm[0] == "ok" and rm[1] != ri[1] and "times-body-probe" in case.get("forms", []):
        ctx.disagreement(case, f"macro rule -> {rm[1][:200]}; written out -> {ri[1][:200]}")
    elif rm[0] == "ok" and rm[1] != ri[1]:
        prep = dsl.prep_from_case(ws, case)
        diff = behaviour(ctx, ws, prep, case["macro_rule"], files, case["inlined_rule"])
        if diff:
            ctx.disagreement(case, diff, key)
