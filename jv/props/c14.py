"""C14 - results depend only on the current inputs, never on earlier runs in the process."""
import base64
import json
import os
import random
import subprocess
import sys

from jv import elf, harness, real

LEVEL = "exploration"
RULE = ("A pool of ~43 hand-picked complete compile-and-match operations plus 10 (quick) / 24 (thorough) operations drawn at "
        "random per shard (rules of all operator kinds with random config, captures and factored macros). The hand-picked ones are chosen so that every piece of process-global or per-compilation "
        "state flips a verdict if it leaks: the 4 full-match flag settings on one near-miss listing; two valid_addr_range "
        "settings and none on a listing where only tagging decides; sections lists vs none on a multi-section ELF; style "
        "intel/att/absent on a binary; rules with 0-3 capture names (instruction, operand, register family); one macro name "
        "defined differently in two rule files and in two extra macro files; operations that fail half-way through config "
        "loading (bad sections after valid flags, bad flag type) or in the regex build. Model = result (value or exception "
        "class) of each operation executed FIRST in a fresh interpreter (one subprocess per operation). Histories: every "
        "ordered pair (predecessor -> successor) incl. immediate repeats is executed in-process at least once (quick); random "
        "walks of 20-60 operations sampling ordered triples (thorough); each in-history result is compared with the fresh "
        "table; 40% of the in-history executions go through file names shared by all operations (content rewritten before use), "
        "so state cached by path is exposed. Diagnostic hook H4: the singleton's four entries are compared with a pure function of the current rule's config "
        "after every operation (reported in the witness only). Non-trivial/distinct = distinct ordered (predecessor, successor) "
        "pairs observed in histories.")
FLOOR = {"quick": 1000, "thorough": 1500}
ANCHOR_HINTS = ["global_definitions", "yaml2regex", "capture_manager", "match.py", "gnu_objdump_disassembler", "macro_expander"]
REQUIRED_EVENTS = ["history_results_compared", "fresh_results"]
SHARDS = {"quick": 4, "thorough": 16}

NEAR = """
  401000:\t48 89 c3             \tmovq   %rax,%rbx
  401003:\te8 fd 0f 00 00       \tcall   401005 <f+0x5>
  401008:\t53                   \tpush   %rbx
  401009:\t53                   \tpush   %rbx
  40100a:\t48 01 d8             \tadd    %rbx,%rax
  40100d:\t66 89 c3             \tmov    %ax,%bx
  401010:\tc3                   \tret
"""


def the_elf() -> bytes:
    rng = random.Random(1234)
    text = bytes([0x48, 0x89, 0xC3, 0x53, 0x53, 0xC3])                  # mov %rax,%rbx; push %rbx; push %rbx; ret
    init = bytes([0xF4, 0x90, 0xC9, 0xC3])                                # hlt; nop; leave; ret
    return elf.build([elf.Section(".text", text, 0x401000), elf.Section(".init", init, 0x400000),
                      elf.Section(".data", bytes(rng.randrange(256) for _ in range(16)), 0x600000, False)], 64,
                     symbols=[("main", 0, 0), ("_init", 1, 0)])


def pool():
    """[(name, rule_doc, macro_docs, input_kind, mode)]"""
    ops = []

    def add(name, doc, macros=(), inp="near", mode=("bool", "first", False)):
        ops.append({"name": name, "rule": real.dump_rule(doc) if not isinstance(doc, str) else doc,
                    "macros": [real.dump_rule(m) for m in macros], "input": inp, "mode": list(mode)})
    L = ("list", "all", True)
    # full-match flags on a near-miss listing
    add("flags-none", {"pattern": [{"mov": ["rax"]}]}, mode=L)
    add("flags-mn", {"config": {"mnemonics-full-match": True}, "pattern": [{"mov": ["rax"]}]}, mode=L)
    add("flags-op", {"config": {"operands-full-match": True}, "pattern": [{"mov": ["rax"]}]}, mode=L)
    add("flags-both", {"config": {"mnemonics-full-match": True, "operands-full-match": True}, "pattern": [{"mov": ["%ax"]}]}, mode=L)
    add("flags-mn-pos", {"config": {"mnemonics-full-match": True}, "pattern": [{"movq": ["rax"]}]})
    add("flags-op-pos", {"config": {"operands-full-match": True}, "pattern": [{"mov": ["%rax"]}]})
    add("flags-explicit-false", {"config": {"mnemonics-full-match": False, "operands-full-match": False}, "pattern": [{"ov": ["ax", "bx"]}]}, mode=L)
    # valid_addr_range
    add("range-in", {"config": {"valid_addr_range": {"min": "0x401000", "max": "0x401fff"}}, "pattern": [{"call": ["valid_addr"]}]}, mode=L)
    add("range-out", {"config": {"valid_addr_range": {"min": "0x500000", "max": "0x5fffff"}}, "pattern": [{"call": ["valid_addr"]}]}, mode=L)
    add("range-none-literal", {"pattern": [{"call": ["401005"]}]}, mode=L)
    # ranges that contain nothing (inverted bounds, a single far address): the literal target stays what it is, whatever ran before
    add("range-inverted-literal", {"config": {"valid_addr_range": {"min": "0x402000", "max": "0x401000"}}, "pattern": [{"call": ["401005"]}]}, mode=L)
    add("range-inverted-tag", {"config": {"valid_addr_range": {"min": "0x402000", "max": "0x401000"}}, "pattern": [{"call": ["valid_addr"]}]}, mode=L)
    add("range-far-point-literal", {"config": {"valid_addr_range": {"min": "0xfffffff0", "max": "0xfffffff0"}}, "pattern": [{"call": ["401005"]}]}, mode=L)
    add("range-none-tag", {"pattern": [{"call": ["valid_addr"]}]})
    add("range-in-literal", {"config": {"valid_addr_range": {"min": "401005", "max": "401005"}}, "pattern": [{"call": ["401005"]}]})
    # sections / style on a binary
    add("bin-all", {"pattern": ["hlt"]}, inp="elf", mode=L)
    add("bin-text", {"config": {"sections": [".text"]}, "pattern": ["hlt"]}, inp="elf", mode=L)
    add("bin-init", {"config": {"sections": [".init"]}, "pattern": ["hlt"]}, inp="elf", mode=L)
    add("bin-both", {"config": {"sections": [".init", ".text"]}, "pattern": ["push", "push"]}, inp="elf", mode=L)
    add("bin-nosuch", {"config": {"sections": [".nosuch"]}, "pattern": ["push"]}, inp="elf")
    add("bin-att", {"config": {"style": "att"}, "pattern": [{"mov": ["%rax"]}]}, inp="elf")
    add("bin-intel", {"config": {"style": "intel"}, "pattern": [{"mov": ["%rax"]}]}, inp="elf")
    add("bin-nostyle", {"pattern": [{"mov": ["%rax"]}]}, inp="elf")
    add("bin-intel-text", {"config": {"style": "intel", "sections": [".text"]}, "pattern": ["hlt"]}, inp="elf", mode=L)
    add("bin-intel-init", {"config": {"style": "intel", "sections": [".init"]}, "pattern": ["hlt"]}, inp="elf", mode=L)
    add("bin-intel-init-push", {"config": {"style": "intel", "sections": [".init"]}, "pattern": ["push"]}, inp="elf", mode=L)
    # captures
    add("cap-0", {"pattern": ["push", "push", "add"]})
    add("cap-op1", {"pattern": [{"push": ["&a"]}, {"push": ["&a"]}]}, mode=L)
    add("cap-op2", {"pattern": [{"movq": ["&x", "&y"]}, "call", {"push": ["&y"]}]}, mode=L)
    add("cap-op3-neg", {"pattern": [{"movq": ["&x", "&y"]}, "call", {"push": ["&x"]}]})
    add("cap-inst", {"pattern": ["&i", "&i", "add"]}, mode=L)
    add("cap-reg", {"pattern": [{"movq": ["&genreg-1.64", "&genreg-2.64"]}, "call", {"push": ["&genreg-2.64"]}]})
    add("cap-3", {"pattern": [{"movq": ["&p", "&q"]}, "&r", {"push": ["&q"]}, {"push": ["&q"]}]}, mode=L)
    # macros: one name, different definitions, in rule files and in extra files
    add("mac-file-push", {"macros": [{"name": "@m", "pattern": "push"}], "pattern": ["@m", "@m"]}, mode=L)
    add("mac-file-zzz", {"macros": [{"name": "@m", "pattern": "zzz"}], "pattern": ["@m", "@m"]}, mode=L)
    add("mac-extra-push", {"pattern": ["call", "@m"]}, macros=[{"macros": [{"name": "@m", "pattern": "push"}]}], mode=L)
    add("mac-extra-zzz", {"pattern": ["call", "@m"]}, macros=[{"macros": [{"name": "@m", "pattern": "zzz"}]}], mode=L)
    # one library file (same path, same content) whose list-bodied macro refers to a macro each rule defines itself
    lib = {"macros": [{"name": "@two", "pattern": [{"$and": ["@x", "@x"]}]}]}
    add("mac-lib-push", {"macros": [{"name": "@x", "pattern": "push"}], "pattern": ["@two"]}, macros=[lib], mode=L)
    add("mac-lib-zzz", {"macros": [{"name": "@x", "pattern": "zzz"}], "pattern": ["@two"]}, macros=[lib], mode=L)
    add("mac-lib-call", {"macros": [{"name": "@x", "pattern": "add"}], "pattern": ["push", "@two"]}, macros=[lib], mode=L)
    ops[-1]["share_macro_paths"] = ops[-2]["share_macro_paths"] = ops[-3]["share_macro_paths"] = "lib"
    # one register-family capture name at different positions of the capture table
    add("cap-regname-first", {"pattern": [{"push": ["&genreg-acc.64"]}, {"push": ["&genreg-acc.64"]}]}, mode=L)
    add("cap-regname-second", {"pattern": [{"movq": ["&o1", "&genreg-acc.64"]}, "call", {"push": ["&genreg-acc.64"]}]}, mode=L)
    add("cap-regname-third", {"pattern": [{"movq": ["&o1", "&o2"]}, "call", {"push": ["&genreg-acc.64"]}, {"push": ["&genreg-acc.64"]}]}, mode=L)
    add("mac-param", {"macros": [{"name": "@p", "args": ["r"], "pattern": [{"push": ["r"]}]}],
                      "pattern": [{"@p": None, "r": "%rbx"}, {"@p": None, "r": "%rbx"}]}, mode=L)
    add("mac-param-neg", {"macros": [{"name": "@p", "args": ["r"], "pattern": [{"push": ["r"]}]}],
                          "pattern": [{"@p": None, "r": "%rbx"}, {"@p": None, "r": "%rcx"}]})
    # operations that fail half way
    add("fail-sections-after-flags", {"config": {"mnemonics-full-match": True, "operands-full-match": True, "sections": "text"}, "pattern": ["push"]})
    add("fail-flag-type", {"config": {"mnemonics-full-match": "yes", "valid_addr_range": {"min": "0", "max": "ffffffff"}}, "pattern": ["push"]})
    add("fail-not-arity", {"config": {"operands-full-match": True, "valid_addr_range": {"min": "0", "max": "ffffffff"}}, "pattern": [{"$not": ["a", "b"]}]})
    add("fail-undefined-macro", {"macros": [{"name": "@m", "pattern": "push"}], "pattern": ["@nope"]})
    # a `config:` key with nothing under it (every option commented out): whatever it does, it does the same after any history
    add("empty-config-key", "config:\npattern:\n  - mov:\n      - rax\n", mode=L)
    add("empty-config-key-range", "config:\n  # valid_addr_range: {min: '0', max: 'ffffffff'}\npattern:\n  - call:\n      - valid_addr\n", mode=L)
    # two rules with macros that differ ONLY in the order of the entries of an operator written as one mapping
    unused = [{"name": "@unused", "pattern": "hlt"}]
    add("map-order-push-add", {"macros": unused, "pattern": [{"$and": {"push": ["%rbx"], "add": ["%rbx"]}}]}, mode=L)
    add("map-order-add-push", {"macros": unused, "pattern": [{"$and": {"add": ["%rbx"], "push": ["%rbx"]}}]}, mode=L)
    add("map-order-lib-push-add", {"pattern": [{"$and": {"push": ["%rbx"], "add": ["%rbx"]}}]}, macros=[{"macros": unused}], mode=L)
    add("map-order-lib-add-push", {"pattern": [{"$and": {"add": ["%rbx"], "push": ["%rbx"]}}]}, macros=[{"macros": unused}], mode=L)
    return ops


def random_ops(rng, k):
    """Further operations drawn at random: rules of all operator kinds on a synthetic listing with random
    config (flags, valid_addr_range), captures and a factored macro - state nobody thought of may leak too."""
    from jv import listing as L, rulegen as RG, macrogen
    insts = L.gen_listing(rng, 25, start=0x401000)
    text = L.render(insts, rng)
    ops = []
    tries = 0
    while len(ops) < k and tries < 200:
        tries += 1
        feat = RG.Feat(operands=0.7, groups=0.25, nots=0.15, ogroups=0.15, icaps=0.1, ocaps=0.2, regfam=0.2, times_item=0.2,
                       group_times=0.2, deref=0.3, max_depth=2, max_spine=rng.choice([1, 2, 3]))
        pattern = RG.RuleGen(rng, insts, feat).rule()
        if not pattern or RG.pattern_cost(pattern) > 150:
            continue
        doc = {}
        cfg = {}
        if rng.random() < 0.5:
            cfg["mnemonics-full-match"] = rng.random() < 0.5
        if rng.random() < 0.5:
            cfg["operands-full-match"] = rng.random() < 0.5
        if rng.random() < 0.3:
            cfg["valid_addr_range"] = {"min": "0x401000", "max": hex(0x401000 + rng.choice([8, 0x40, 0xfffff]))}
        if cfg:
            doc["config"] = cfg
        macros = []
        if rng.random() < 0.4:
            inl, mac, ms, _ = macrogen.factor(rng, pattern, ["%rax", "0x10"], rng.randint(1, 3))
            if ms:
                pattern = mac
                if rng.random() < 0.5:
                    macros = [{"macros": ms}]
                else:
                    doc["macros"] = ms
        doc["pattern"] = pattern
        ops.append({"name": f"rand-{len(ops)}", "rule": real.dump_rule(doc), "macros": [real.dump_rule(m) for m in macros],
                    "input": "rand", "mode": list(rng.choice([("bool", "first", False), ("list", "all", True), ("list", "first", False)])),
                    "input_text": text})
    return ops


def materialise(ws, ops):
    near = ws.write("near.s", NEAR)
    elfp = ws.write("obj.bin", the_elf())
    out = []
    for i, op in enumerate(ops):
        rp = ws.write(f"op{i}.yaml", op["rule"])
        if op.get("share_macro_paths"):
            mf = [ws.write(f"shared_{op['share_macro_paths']}_{j}.yaml", m) for j, m in enumerate(op["macros"])]   # same path, same content
        else:
            mf = [ws.write(f"op{i}_m{j}.yaml", m) for j, m in enumerate(op["macros"])]
        if op["input"] == "rand":
            inp = ws.write(f"op{i}_rand.s", op["input_text"])
        else:
            inp = near if op["input"] == "near" else elfp
        out.append((rp, mf or None, inp, op["input"] == "elf", op["mode"]))
    return out


def run_op(mat, twice=False):
    rp, mf, inp, binary, (ret, search, oa) = mat
    if twice:
        # "repeating an operation gives the same result": the same matcher object asked twice
        r = real.match_twice(rp, inp, binary=binary, ret=ret, search=search, only_addr=oa, macros=mf)
        if r[0] == "ok" and r[1] != r[2]:
            return ["ok", {"first_call": r[1], "second_call_on_same_object": r[2]}]
    else:
        r = real.match(rp, inp, binary=binary, ret=ret, search=search, only_addr=oa, macros=mf)
    return ["ok", r[1]] if r[0] == "ok" else ["exc", r[1]]


def expected_cfg(rule_text):
    import yaml
    doc = yaml.safe_load(rule_text) or {}
    cfg = doc.get("config") or {}
    var = cfg.get("valid_addr_range")
    return {"mn": cfg.get("mnemonics-full-match", False), "op": cfg.get("operands-full-match", False),
            "style": "intel" if cfg.get("style") == "intel" else "att",
            "range": (str(var.get("min")), str(var.get("max"))) if var else None, "sections": cfg.get("sections", [])}


def actual_cfg():
    try:
        gi = real.gd.JASMConfig.get_instance().global_info
        P = real.gd.PartialMatchingConfig
        var = gi.get("valid_addr_range")
        return {"mn": gi.get(P.MnemonicsFullMatch), "op": gi.get(P.OperandsFullMatch),
                "style": getattr(gi.get("assembly_style"), "name", None),
                "range": (hex(var.min.hex), hex(var.max.hex)) if var else None, "sections": gi.get("sections")}
    except Exception as e:  # noqa: BLE001
        return {"hook_missing": str(e)}


def cfg_mismatch(exp, act):
    if "hook_missing" in act:
        return None
    for k in ("mn", "op", "style", "sections"):
        if exp[k] != act[k]:
            return k
    if (exp["range"] is None) != (act["range"] is None):
        return "valid_addr_range"
    return None


def fresh_table(ctx, ws, ops, mats):
    """One subprocess per operation; returns list of results."""
    spec = ws.write("ops.json", json.dumps([list(m[:4]) + [m[4]] for m in mats]))
    env = harness.child_env()
    procs, out = [], [None] * len(ops)
    pending = list(range(len(ops)))
    while pending or procs:
        while pending and len(procs) < 4:
            i = pending.pop(0)
            procs.append((i, subprocess.Popen([harness.PY, "-m", "jv.props.c14", spec, str(i)], cwd=harness.VERIF, env=env,
                                              stdout=subprocess.PIPE, stderr=subprocess.DEVNULL, text=True)))
        i, p = procs.pop(0)
        try:
            so, _ = p.communicate(timeout=120)
            out[i] = json.loads(so.strip().split("\n")[-1])
            ctx.event("fresh_results")
        except Exception:  # noqa: BLE001
            p.kill()
            out[i] = None
            ctx.inconc("fresh process failed")
        ctx.ran()
    return out


def shared_paths(ws, op, mat):
    """The same operation, but through file names shared by all operations (content rewritten before each use),
    so that anything cached by path across operations becomes visible."""
    import shutil
    rp = ws.write("shared_rule.yaml", op["rule"])
    mf = mat[1] if op.get("share_macro_paths") else ([ws.write(f"shared_m{j}.yaml", m) for j, m in enumerate(op["macros"])] or None)
    inp = ws.path("shared_input")
    shutil.copyfile(mat[2], inp)
    return (rp, mf, inp, mat[3], mat[4])


def run_history(ctx, ops, mats, fresh, seq, label, ws=None, last_interleaved_with=None, last_variant=None):
    prev = None
    for pos, i in enumerate(seq):
        if fresh[i] is None:
            prev = i
            continue
        forced = last_variant if pos == len(seq) - 1 else None
        interleaved = (pos + 1 < len(seq) and ctx.rng.random() < 0.15 and forced is None) or (last_interleaved_with is not None and pos == len(seq) - 1)
        variant = "interleaved" if interleaved else "plain"
        nxt = seq[pos + 1] if pos + 1 < len(seq) else last_interleaved_with
        if interleaved:
            # a rule set prepared up front: this operation's matcher is built, the NEXT operation of the history is compiled (its
            # matcher built, not run), then this matcher is run - the other compilation happened before this operation's match
            ctx.event("ops_run_after_the_next_rule_was_compiled")
            rp, mf, inp, binary, (ret, search, oa) = mats[i]
            b = real.build(rp, inp, binary=binary, ret=ret, search=search, only_addr=oa, macros=mf)
            rp2, mf2, inp2, binary2, (ret2, search2, oa2) = mats[nxt]
            real.build(rp2, inp2, binary=binary2, ret=ret2, search=search2, only_addr=oa2, macros=mf2)
            rr = real.run(b)
            r = ["ok", rr[1]] if rr[0] == "ok" else ["exc", rr[1]]
            # the compile API the same way: rule object made, the next rule's object made, then the first one compiled
            at_once = real.compile_rule(rp, mf)
            if at_once[0] == "ok":
                try:
                    y1 = real.y2r.Yaml2Regex(rp, macros_from_terminal=mf)
                    try:
                        real.y2r.Yaml2Regex(rp2, macros_from_terminal=mf2)
                    except Exception:  # noqa: BLE001
                        pass
                    later = ("ok", y1.produce_regex())
                except Exception as e:  # noqa: BLE001
                    later = ("exc", type(e).__name__)
                ctx.ran(2)
                ctx.event("rules_compiled_after_the_next_rule_was_loaded")
                if later != ("ok", at_once[1]):
                    ctx.disagreement({"history": [ops[j]["name"] for j in seq[:pos + 1]], "op": ops[i], "fresh": None, "in_history": list(later)[:1],
                                      "random_ops": [o for o in ops if o["name"].startswith("rand-")], "interleaved_with": ops[nxt]["name"], "compile_only": True},
                                     f"rule {ops[i]['name']}: its Yaml2Regex object was made, then {ops[nxt]['name']} was loaded, then produce_regex() gave "
                                     f"{str(later[1])[:160]!r}; compiled at once it gives {at_once[1][:160]!r}")
                    return False
        elif forced == "config-reused" or (forced is None and ctx.rng.random() < (0.5 if mats[i][1] else 0.1)):
            variant = "config-reused"
            # one MatchConfig object handed to two matcher constructions in a row: both answer like a fresh process
            ctx.event("ops_with_one_config_object_used_for_two_matchers")
            rp, mf, inp, binary, (ret, search, oa) = mats[i]
            rc = real.match_config_reused(rp, inp, binary=binary, ret=ret, search=search, only_addr=oa, macros=list(mf) if mf else mf)
            if rc[0] == "ok":
                r = ["ok", rc[1]] if rc[1] == rc[2] else ["ok", {"first_matcher": rc[1], "second_matcher_from_the_same_config_object": rc[2]}]
            else:
                r = ["exc", rc[1]]
        elif ws is not None and ctx.rng.random() < 0.4:
            ctx.event("ops_through_shared_paths")
            r = run_op(shared_paths(ws, ops[i], mats[i]))
        else:
            r = run_op(mats[i], twice=ctx.rng.random() < 0.25)
        ctx.ran()
        leak = cfg_mismatch(expected_cfg(ops[i]["rule"]), actual_cfg()) if r[0] == "ok" and not interleaved else None
        if leak:
            ctx.event("singleton_differs_from_current_config")
        ctx.event("history_results_compared")
        if prev is not None:
            ctx.case((ops[prev]["name"], ops[i]["name"]), True, stratum=label)
        if r != fresh[i]:
            hist = [ops[j]["name"] for j in seq[max(0, pos - 3):pos + 1]]
            ctx.disagreement({"history": [ops[j]["name"] for j in seq[:pos + 1]], "op": ops[i], "fresh": fresh[i], "in_history": r,
                              "random_ops": [o for o in ops if o["name"].startswith("rand-")],
                              "first_leaked_key": leak, "interleaved_with": ops[nxt]["name"] if interleaved else None, "variant": variant},
                             f"operation {ops[i]['name']} returned {str(r)[:160]} at position {pos} of a history (...{hist}) but {str(fresh[i])[:160]} "
                             f"when executed first in a fresh process; singleton key differing from current config: {leak}"
                             + (f"; its matcher was built, then {ops[nxt]['name']} was compiled, then it was run" if interleaved else ""))
            return False
        prev = i
    return True


def library_rewrite_probe(ctx, ws):
    """One rule object asked twice while a macro file given to it is rewritten in between (an editor saving the library): the second
    answer is what a fresh object gives for the file as it is now - "the result depends on the macro files", as they are when the
    regex is produced."""
    lib = ws.write("rewritten_lib.yaml", real.dump_rule({"macros": [{"name": "@frame", "pattern": [{"push": ["@reg"]}]}, {"name": "@reg", "pattern": "%rbp"}]}))
    rp = ws.write("rewritten_rule.yaml", real.dump_rule({"pattern": ["@frame", {"mov": ["%rsp", "@reg"]}]}))
    try:
        y = real.y2r.Yaml2Regex(rp, macros_from_terminal=[lib])
        r1 = y.produce_regex()
        ws.write("rewritten_lib.yaml", real.dump_rule({"macros": [{"name": "@frame", "pattern": [{"$and": [{"push": ["@reg"]}, "nop"]}]}, {"name": "@reg", "pattern": "%rbx"}]}))
        r2 = y.produce_regex()
        fresh = real.y2r.Yaml2Regex(rp, macros_from_terminal=[lib]).produce_regex()
    except Exception as e:  # noqa: BLE001
        ctx.disagreement({"same_stat": True, "library_rewrite": True}, f"library rewrite probe raised {type(e).__name__}: {e}")
        return
    ctx.ran(3)
    ctx.event("library_rewritten_between_two_compilations_of_one_object")
    if r2 != fresh or r1 == r2:
        ctx.disagreement({"same_stat": True, "library_rewrite": True},
                         f"a rule object asked again after its macro file was rewritten produces {r2[:160]!r}; a fresh object produces {fresh[:160]!r} (first answer {r1[:80]!r})")


def run_shard(ctx):
    ws = real.Workspace()
    if ctx.shard % 4 == 1:
        # "depends only on ... the input file": its content, not its path, size or timestamps
        from jv import strata
        strata.same_stat_probe(ctx, ws, 3, binary=False)
        strata.same_stat_probe(ctx, ws, 3, binary=True)
        library_rewrite_probe(ctx, ws)
    ops = pool()
    nfixed = len(ops)
    ops += random_ops(ctx.rng, 10 if ctx.tier == "quick" else 24)
    mats = materialise(ws, ops)
    fresh = fresh_table(ctx, ws, ops, mats)
    n = len(ops)
    rng = ctx.rng
    ctx.event("random_operations_in_pool", n - nfixed)
    if ctx.shard == 0:
        ctx.sample("fresh-table", {ops[i]["name"]: fresh[i] for i in range(n)})
    # every ordered pair at least once, split over shards
    pairs = [(a, b) for a in range(n) for b in range(n)]
    random.Random(ctx.seed).shuffle(pairs)
    mine = pairs[ctx.shard::ctx.nshards]
    if ctx.tier == "quick" or ctx.shard < 4:
        seq = [x for ab in mine for x in ab]
        for k in range(0, len(seq), 120):
            run_history(ctx, ops, mats, fresh, seq[k:k + 120], "ordered-pairs", ws)
    if ctx.tier == "thorough":
        for _ in range(ctx.share(0, 6000)):
            ln = rng.randint(20, 60)
            seq = []
            for _ in range(ln):
                seq.append(seq[-1] if seq and rng.random() < 0.1 else rng.randrange(n))
            run_history(ctx, ops, mats, fresh, seq, "random-walk", ws)
    ctx.sample("history", {"first_ops": [ops[i]["name"] for i in ([x for ab in mine[:6] for x in ab])]})


def replay(ctx, case):
    if case.get("library_rewrite"):
        return library_rewrite_probe(ctx, real.Workspace())
    if case.get("same_stat"):
        from jv import strata
        return strata.same_stat_probe(ctx, real.Workspace(), 8, binary=bool(case.get("binary")))
    ws = real.Workspace()
    ops = pool() + [o for o in case.get("random_ops", [])]
    names = [o["name"] for o in ops]
    mats = materialise(ws, ops)
    fresh = fresh_table(ctx, ws, ops, mats)
    seq = [names.index(nm) for nm in case["history"] if nm in names]
    li = case.get("interleaved_with")
    run_history(ctx, ops, mats, fresh, seq, "replay", last_interleaved_with=names.index(li) if li in names else None,
                last_variant=case.get("variant") if case.get("variant") == "config-reused" else None)


if __name__ == "__main__":
    spec, idx = sys.argv[1], int(sys.argv[2])
    m = json.load(open(spec))[idx]
    print(json.dumps(run_op((m[0], m[1], m[2], m[3], m[4]))))
