"""C15 - matching a binary equals matching its `objdump -d -M att` text."""
import os
import sys

from jv import objd, real, refline, stream

LEVEL = "exploration"
RULE = ("ELF64/ELF32 objects written by the harness with 1-4 executable sections of distinct random content (some placed at "
        "lower addresses than earlier ones) plus data sections, x `config.sections` absent / one / several / reordered / "
        "with names not present / naming a data section, optionally together with other config keys (style: att, valid_addr_range, "
        "full-match flags) given identically to both routes; objects whose code section names extend one another (.text / .text.startup / .text.hot ...); "
        "`ar` archives of assembled relocatable objects and the objects themselves; also tests/binary/*.bin. The binary route (MasterOfPuppets, "
        "InputFileType.binary) is compared with the assembly route fed with the harness's own `objdump -d -M att` output "
        "restricted to the named sections by the harness (reference A) and, as second reference, with the harness's own "
        "`-j` invocation (reference B): stream equal, and for a rule derived from the listing the address list equal in both "
        "search modes. Where A and B legitimately differ (a named data section, which -d alone never prints) either is "
        "accepted; if no named section exists (objdump exits 1) the binary route must raise or yield A. Audit hook H6 records "
        "the argv of every objdump spawn (shown, not judged). Non-trivial = the object has >= 2 executable sections or a "
        "sections list was given; distinct = (object bytes hash, sections list).")
FLOOR = {"quick": 60, "thorough": 1000}
ANCHOR_HINTS = ["gnu_objdump_disassembler", "shell_disassembler", "composable_producer", "match.py"]
REQUIRED_EVENTS = ["routes_compared", "subsection_objects", "archive_or_object_inputs"]

SPAWNS = []
_hooked = False


def _audit(event, args):
    if event == "subprocess.Popen":
        try:
            argv = list(args[1])
            if argv and os.path.basename(str(argv[0])) == "objdump":
                SPAWNS.append([str(a) for a in argv])
        except Exception:  # noqa: BLE001
            pass


def install():
    global _hooked
    if not _hooked:
        sys.addaudithook(_audit)
        _hooked = True


def filter_sections(text: str, names):
    """Keep the header and only the 'Disassembly of section X:' blocks whose X is in names (file order)."""
    out, keep, seen_header = [], True, False
    for line in text.split("\n"):
        if line.startswith("Disassembly of section "):
            seen_header = True
            nm = line[len("Disassembly of section "):].rstrip(":")
            keep = nm in names
        if keep or not seen_header:
            out.append(line)
    return "\n".join(out)


def assembly_stream(ws, text, cfg_rule):
    p = ws.write("ref.s", text)
    return objd.real_stream(ws, p, rule_text=cfg_rule)


def rule_text(sections, pattern="zzzzzz", extra=None):
    doc = {}
    cfg = dict(extra or {})
    if sections is not None:
        cfg["sections"] = list(sections)
    if cfg:
        doc["config"] = cfg
    doc["pattern"] = [pattern]
    return real.dump_rule(doc)


ODD_NAMES = ["./-stage2.bin", "./--help", "my prog.bin", "./-j", "a,b|c.bin", "prog.bin.", "./@x.bin", "o'q.bin", "./-d"]


def judge(ctx, ws, blob, sections, origin, exec_names, all_names, extra=None, fname=None):
    with ctx.ambient_log():
        if fname is None and ctx.rng.random() < 0.12:
            fname = ctx.rng.choice(ODD_NAMES)          # file names a shell user may have: leading dash behind ./, blanks, separators of the stream
            ctx.event("inputs_with_unusual_file_names")
        if fname is None:
            return _judge(ctx, ws, blob, sections, origin, exec_names, all_names, extra)
        cwd = os.getcwd()
        os.chdir(ws.dir)
        try:
            return _judge(ctx, ws, blob, sections, origin + f" as {fname!r}", exec_names, all_names, extra, fname)
        finally:
            os.chdir(cwd)


def _judge(ctx, ws, blob, sections, origin, exec_names, all_names, extra=None, fname=None):
    """extra: further config keys (style, valid_addr_range, flags) given identically to both routes."""
    if fname and fname != "libx.a":
        with open(os.path.join(ws.dir, fname), "wb") as f:
            f.write(blob)
    op = fname if fname else ws.write("o.bin", blob)
    rc_full, full, _ = objd.disassemble(op)
    if rc_full != 0:
        ctx.inconc("objdump refuses the object")
        return
    textA = filter_sections(full, set(sections)) if sections else full
    rcB, textB, errB = objd.disassemble(op, sections=sections) if sections else (rc_full, full, "")
    rt = rt_text = rule_text(sections, extra=extra)
    del SPAWNS[:]
    rR = objd.real_stream(ws, op, binary=True, rule_text=rt)
    ctx.ran()
    spawn = SPAWNS[-1] if SPAWNS else None
    if spawn:
        ctx.event("objdump_spawns_observed")
    rA = assembly_stream(ws, textA, rule_text(None, extra=extra))
    ctx.ran()
    if extra:
        ctx.event("cases_with_other_config_keys")
    case = {"origin": origin, "sections": sections, "extra_config": extra, "fname": fname if fname != "libx.a" else None, "object_b64": __import__("base64").b64encode(blob).decode(), "argv_observed": spawn}
    nontrivial = len(exec_names) >= 2 or sections is not None
    ctx.case((real.__name__, __import__("hashlib").sha256(blob).hexdigest(), sections), nontrivial,
             stratum=("no sections" if sections is None else "absent-only" if not (set(sections) & set(all_names)) else
                      "data-named" if set(sections) & (set(all_names) - set(exec_names)) else "exec sections"))
    if rA[0] != "ok":
        ctx.inconc("assembly route raised on reference text (left to C08)")
        return
    if rcB != 0:
        # no named section exists: raise, or behave as the (empty) restriction
        ctx.event("reference_objdump_failed")
        if rR[0] == "exc":
            ctx.event("binary_route_raised_for_absent_sections")
            return
        if rR[1] != rA[1]:
            ctx.disagreement(case, f"objdump -j {sections} fails (no such section) but the binary route silently produced a different stream ({len(rR[1])} chars) than the empty restriction")
        return
    if rR[0] != "ok":
        ctx.disagreement(case, f"binary route raised {rR[1]}: {rR[2]} although objdump disassembles the object (argv seen: {spawn})")
        return
    rB = assembly_stream(ws, textB, rule_text(None, extra=extra)) if sections else rA
    ctx.ran()
    acceptable = {rA[1]}
    names_data = bool(sections) and bool(set(sections) & (set(all_names) - set(exec_names)))
    if rB[0] == "ok":
        if names_data:
            acceptable.add(rB[1])
        elif rB[1] != rA[1]:
            ctx.inconc("references A and B differ without a data section being named")
            return
    ctx.event("routes_compared")
    if ctx.rng.random() < 0.3:
        rt = real.match_twice(ws.write("_stream_rule.yaml", rt_text), op, binary=True, ret="stream")
        ctx.ran(2)
        ctx.event("same_object_asked_twice")
        if rt[0] != "ok" or rt[1] != rR[1] or rt[2] != rR[1]:
            ctx.disagreement(case, f"perform_matching() twice on one object with a binary input: 1st {str(rt[1]).count('|')} records, 2nd {str(rt[2]).count('|') if rt[0] == 'ok' else rt[1:]} "
                                   f"records, a fresh object gives {rR[1].count('|')}")
            return
    if rR[1] not in acceptable:
        try:
            nR, nA = len(stream.decode(rR[1])), len(stream.decode(rA[1]))
        except stream.StreamError:
            nR = nA = -1
        ctx.disagreement(case, f"binary route stream ({nR} records) differs from the text route on `objdump -d -M att` restricted to {sections} ({nA} records); argv seen: {spawn}")
        return
    # verdict and addresses for a rule derived from the listing
    rinsts, _ = refline.read_listing(textA if rR[1] == rA[1] else textB)
    if rinsts:
        ri = ctx.rng.choice(rinsts)
        name = ri.parsed.mnemonic
        if name.isalnum():
            for search in ("all", "first"):
                rtx = rule_text(sections, name, extra=extra)
                rp = ws.write("r.yaml", rtx)
                b = real.match(rp, op, binary=True, ret="list", search=search, only_addr=True)
                rp2 = ws.write("r2.yaml", rule_text(None, name, extra=extra))
                a = real.match(rp2, ws.path("ref.s") if rR[1] == rA[1] else ws.write("refB.s", textB), ret="list", search=search, only_addr=True)
                ctx.ran(2)
                if b[:2] != a[:2]:
                    ctx.disagreement(case, f"rule [{name}] ({search}): binary route {str(b[:2])[:200]} vs text route {str(a[:2])[:200]}")
                    return
            ctx.event("address_lists_compared")
    ctx.sample("sections" if sections else "whole object", {"origin": origin, "sections": sections, "argv_observed": spawn,
                                                            "records": rR[1].count("|"), "exec_sections": exec_names})


def subsection_stratum(ctx, ws, n):
    """Objects whose code sections have names that extend one another (.text, .text.startup, .text.hot, .text.unlikely, .text.exit,
    .init, .init_array) and data sections (.data, .data.rel.ro): naming `.text` means the section called `.text`, nothing else."""
    from jv import elf
    rng = ctx.rng
    for _ in range(n):
        names = [".text"] + rng.sample([".text.startup", ".text.hot", ".text.unlikely", ".text.exit", ".init", ".textual", "text"], rng.randint(1, 3))
        data_names = rng.sample([".data", ".data.rel.ro", ".rodata"], rng.randint(0, 2))
        secs, addr = [], 0x401000
        for nm in names:
            secs.append(elf.Section(nm, elf.random_code(rng, rng.randint(20, 120), "biased"), addr, True))
            addr += 0x1000
        for nm in data_names:
            secs.append(elf.Section(nm, elf.random_code(rng, rng.randint(16, 64)), addr + 0x10000, False))
            addr += 0x1000
        rng.shuffle(secs)
        bits = rng.choice([64, 64, 32])
        blob = elf.build(secs, bits, None)
        sel = rng.choice([[".text"], [".text"], [rng.choice(names)], [".text", rng.choice(names)], [".text"] + data_names[:1], data_names[:1] or [".text"]])
        ctx.event("subsection_objects")
        judge(ctx, ws, blob, sel, f"subsections/elf{bits}", names, names + data_names)


def archive_stratum(ctx, ws, n):
    """Inputs objdump disassembles although they are not a single ELF image: `ar` archives of relocatable objects (every lib*.a) and the
    relocatable objects themselves. The binary route must equal the text route on `objdump -d -M att` of the same file."""
    import shutil
    import subprocess
    from jv import asmgen
    rng = ctx.rng
    ar = shutil.which("ar")
    for _ in range(n):
        members = []
        for k in range(rng.randint(1, 3)):
            bits = 64
            r = asmgen.assemble(ws, [asmgen.template(rng, bits) for _ in range(rng.choice([8, 30]))], bits)
            if r is None:
                continue
            mp = ws.path(f"m{k}.o")
            shutil.copy(r[0], mp)
            members.append(mp)
        if not members:
            ctx.inconc("as refused a template batch")
            continue
        kind = rng.choice(["archive", "archive", "thin-archive", "coff", "object"])
        objcopy = shutil.which("objcopy")
        fname = None
        if ar and kind in ("archive", "thin-archive"):
            lib = ws.path("libx.a")
            if os.path.exists(lib):
                os.remove(lib)
            flags = "rcs" if kind == "archive" else "rcsT"        # a thin archive refers to its members by path: they stay where they are
            if subprocess.run([ar, flags, lib] + members, capture_output=True).returncode != 0:
                ctx.inconc("ar failed")
                continue
            blob, origin = open(lib, "rb").read(), f"{kind}/{len(members)} members"
            fname = "libx.a" if kind == "thin-archive" else None
        elif objcopy and kind == "coff":
            obj = ws.path("t.obj")
            if subprocess.run([objcopy, "-O", "pe-x86-64", members[0], obj], capture_output=True).returncode != 0:
                ctx.event("objcopy_to_coff_failed")
                continue
            blob, origin = open(obj, "rb").read(), "COFF object (pe-x86-64)"
        else:
            blob, origin = open(members[0], "rb").read(), "relocatable object"
        ctx.event("archive_or_object_inputs")
        ctx.event("input_kind:" + origin.split("/")[0])
        judge(ctx, ws, blob, rng.choice([None, None, [".text"]]), origin, [".text"], [".text", ".data", ".bss"], fname=fname)


def run_shard(ctx):
    install()
    ws = real.Workspace()
    rng = ctx.rng
    subsection_stratum(ctx, ws, ctx.share(64, 3000))
    if ctx.shard % 4 == 2:
        from jv import strata
        strata.same_stat_probe(ctx, ws, 3, binary=True)       # an object rebuilt in place with pinned timestamps
    archive_stratum(ctx, ws, ctx.share(32, 1500))
    bdir = os.path.join(real.JASM_REPO, "tests", "binary")
    if os.path.isdir(bdir):
        limit = 50_000 if ctx.tier == "quick" else 300_000
        files = [f for f in sorted(os.listdir(bdir)) if os.path.isfile(os.path.join(bdir, f)) and os.path.getsize(os.path.join(bdir, f)) < limit]
        for i, f in enumerate(files):
            if i % ctx.nshards != ctx.shard:
                continue
            blob = open(os.path.join(bdir, f), "rb").read()
            for secs in (None, [".text"], [".plt", ".plt.got"], [".init", ".text"], [".nosuch"]):
                judge(ctx, ws, blob, secs, "fixture:" + f, [".text", ".init"], [".text", ".init", ".data"])
    n = ctx.share(250, 20000)
    for _ in range(n):
        blob, secs, bits = objd.random_object(rng, size=(60, 600))
        exec_names = [s.name for s in secs if s.exec_]
        all_names = [s.name for s in secs]
        r = rng.random()
        if r < 0.2:
            sel = None
        elif r < 0.4:
            sel = [rng.choice(exec_names)]
        elif r < 0.6:
            sel = rng.sample(exec_names, rng.randint(1, len(exec_names)))
            rng.shuffle(sel)
        elif r < 0.75:
            sel = rng.sample(exec_names, rng.randint(1, len(exec_names))) + [rng.choice([".nosuch", ".bss", "text"])]
            rng.shuffle(sel)
        elif r < 0.85:
            sel = [rng.choice([".nosuch", ".textx", "text"])]
        else:
            sel = rng.sample(all_names, rng.randint(1, len(all_names)))
        extra = None
        if rng.random() < 0.4:
            base = min(s.addr for s in secs)
            extra = rng.choice([
                {"valid_addr_range": {"min": hex(base), "max": hex(base + rng.choice([0x10, 0x80, 0xfff]))}},
                {"valid_addr_range": {"min": "0", "max": "ffffffffffff"}, "style": "att"},
                {"style": "att", "mnemonics-full-match": True},
                {"operands-full-match": True, "valid_addr_range": {"min": hex(base + 0x20), "max": hex(base + 0x40)}},
            ])
        judge(ctx, ws, blob, sel, f"elf{bits}", exec_names, all_names, extra)


def replay(ctx, case):
    if case.get("same_stat"):
        from jv import strata
        return strata.same_stat_probe(ctx, real.Workspace(), 8, binary=bool(case.get("binary")))
    install()
    import base64
    judge(ctx, real.Workspace(), base64.b64decode(case["object_b64"]), case["sections"], "replay", ["?", "?"], [], case.get("extra_config"), fname=case.get("fname"))
