"""C16 - only the instruction sequence matters, not how the listing is presented."""
import os
import re

from jv import listing as L, objd, real, refline

LEVEL = "exploration"
RULE = ("Listings L from the real objdump (random ELF64/ELF32 objects), from tests/assembly and from S-syn; L' = L after 1-30 "
        "random presentation edits that keep the instruction sequence: add/remove/rename symbol label lines, add/remove/alter "
        "trailing <sym+off> annotations (only after an operand token) and '# ...' comments (after operands or after the padded "
        "mnemonic of operand-less instructions), whole-line comments (also ones that quote an instruction row), blank lines, section headers, the file-format header, 0-12 leading spaces, "
        "raw-byte column content / byte count 1-7 / padding width (column present and well-formed), byte-continuation lines "
        "added/removed. Edits use R-line's segmentation: only a trailing ' <...>' and a trailing ' # ...' segment are touched. "
        "A quarter of the pairs is compared under a rule that names `sections` (drawn from the listing's own banners and decoys), a quarter under a rule that configures valid_addr_range, a fifth after a run WITH the option on L. "
        "Metamorphic oracle on the real code: stream(L) == stream(L') and the address lists of 3 rules drawn from L's "
        "mnemonics/operands are equal. Non-trivial = at least one edit changed the text and L has >= 3 instructions; "
        "distinct = (L hash, edit script).")
FLOOR = {"quick": 150, "thorough": 2500}
ANCHOR_HINTS = ["asm_manual_parser_w_regex", "gnu_objdump_parser_manual"]
REQUIRED_EVENTS = ["pairs_compared", "huge_pairs_compared"]

SYMS = ["main", "_start", "f.cold", "foo@plt", "L1", "add", "x<y>", "operator<<", "a b", "#hash", "data16 x"]
SYMS[5:5] = ["foo(int, char)", "std::vector<int, std::allocator<int> >::push_back(int const&)"]      # demangled names (objdump -C)


# names a section holding code may legitimately carry (packed / hand-written objects): the banner is presentation whatever it says
SECTION_NAMES = [".text", ".init", "weird name", ".text.unlikely", ".debug_x", ".zdebug_info", ".debug_line", ".comment", ".note.gnu", ".rodata", ".data", ".bss",
                 ".eh_frame", "UPX0", ".plt.sec", ".text$mn", ".fini_array", "-", ".", "x" * 300]


# BFD target names objdump prints in the banner (raw images and hex containers included): the banner is presentation
# file names as objdump echoes them in the banner: paths, archive members, and names that happen to contain words objdump uses elsewhere
BANNER_FILES = ["other.o", "fw.bin", "a b.exe", "lib.a(member.o)", "alarm.o", "/opt/arm-sdk/bin/tool", "mips/warm_boot.o", "powerpc_sparc_riscv.bin", "aarch64-linux-gnu/libc.so.6",
                "file format.o", "Disassembly of section .text:", "s390x.o", "libfoo.a(arm.o)", "...", "0000000000401000 <main>:"]
TARGETS = ["elf64-x86-64", "elf32-i386", "binary", "ihex", "srec", "pei-x86-64", "pe-x86-64", "mach-o-x86-64", "elf64-little", "tekhex", "verilog", "elf32-x86-64"]


def long_name(rng) -> str:
    """Very long (mangled) symbol names: objdump prints them in full."""
    return "_ZN" + "".join(rng.choice("abcdefghijklmnopqrstuvwxyzABCDEFGHIJKLMNOPQRSTUVWXYZ0123456789_") for _ in range(rng.choice([300, 1100, 1204, 5000])))


def core_of(text: str) -> str:
    body = text
    h = body.find("#")
    if h >= 0:
        body = body[:h]
    body = body.rstrip()
    m = re.search(r"\s(<[^>]*>)$", body)
    if m:
        body = body[:m.start()].rstrip()
    return body


def edit_listing(rng, text: str):
    """Returns (text', list of edit names)."""
    lines = text.split("\n")
    out, edits = [], []
    n_edits = rng.randint(1, 30)
    p_edit = min(0.9, n_edits / max(1, len(lines)) * 2)

    def do(name):
        if rng.random() < p_edit:
            edits.append(name)
            return True
        return False
    for raw in lines:
        ln = refline.classify(raw)
        if ln.kind == "inst":
            parsed = refline.parse_text(ln.text)
            core = core_of(ln.text)
            ann, com = parsed.annotation, parsed.comment
            has_ops = parsed.operand_text is not None
            if do("annotation"):
                if ann and rng.random() < 0.5:
                    ann = None
                elif has_ops:
                    ann = f"<{rng.choice(SYMS[:7]) if rng.random() < 0.9 else long_name(rng)}{rng.choice(['', '+0x10', '-0x8'])}>"
            if do("comment"):
                if com and rng.random() < 0.5:
                    com = None
                else:
                    com = "# " + (long_name(rng) if rng.random() < 0.08 else "") + rng.choice(["4010 <x+0x1>", "comment, with | bars :: and ,commas", "0x10", "%rax,%rbx", "Disassembly of section .text:",
                                             "see Disassembly of section .init: above", "file format elf64-x86-64", "0000000000401000 <main>:", "...", "401000:\t90 \tnop"])
            spaces = " " * rng.randint(0, 12) if do("indent") else raw[: len(raw) - len(raw.lstrip(" "))]
            nb = ln.nbytes
            if do("bytes"):
                nb = rng.randint(1, 7) if rng.random() < 0.8 else rng.randint(8, 24)       # wider rows: objdump --insn-width=N
                col = "".join("%02x " % rng.randrange(256) for _ in range(nb))
                col = col.ljust(rng.choice([len(col), 21, 21, 24, 30]))
            else:
                j = raw.index(":\t") + 2
                col = raw[j: raw.index("\t", j)]
            t = core
            if not has_ops and (com or ann):
                t = core.ljust(6) + " "
            if ann and has_ops:
                t += " " + ann
            if com:
                t += ("        " if has_ops else "") + com
            if do("trailing-blanks"):
                t += " " * rng.randint(1, 9)          # older binutils pad the mnemonic column of operand-less instructions
            out.append(f"{spaces}{ln.addr}:\t{col}\t{t}")
            if do("add-continuation"):
                out.append(f"{spaces}{ln.addr}:\t" + "".join("%02x " % rng.randrange(256) for _ in range(rng.randint(1, 7))))
            if do("comment-line"):
                # a whole-line comment, possibly quoting an instruction row (the style of the header of tests/assembly/AesCore.s)
                quoted = rng.choice([raw, f"  {ln.addr}:\te8 dd ff ff ff \tcall   401106 <helper>", "just words", f"{ln.addr}:"])
                out.append(rng.choice(["# ", "#", "// ", "; ", "#\t"]) + quoted)
            if do("blank"):
                out.append("")
            if do("label"):
                out.append(f"{int(ln.addr, 16) + 1:016x} <{rng.choice(SYMS) if rng.random() < 0.9 else long_name(rng)}>:")
            if do("section-header"):
                out += ["", f"Disassembly of section {rng.choice(SECTION_NAMES)}:", ""]
            if rng.random() < p_edit * 0.3:
                # the listing of an archive or of several objects (`objdump -d libx.a`, `objdump -d a.o b.o`): one banner per member, in the middle of the text
                edits.append("member-banner")
                out += ["", f"{rng.choice(BANNER_FILES)}:     file format {rng.choice(TARGETS[:2])}", "", "", f"Disassembly of section {rng.choice(SECTION_NAMES)}:", ""]
        elif ln.kind == "cont":
            if do("remove-continuation"):
                continue
            out.append(raw)
        else:
            s = raw.strip()
            if s == "" and do("remove-blank"):
                continue
            if re.match(r"^[0-9a-fA-F]+ <.*>:$", raw):
                if do("label-change"):
                    if rng.random() < 0.5:
                        continue
                    raw = raw.split(" <")[0] + f" <{rng.choice(SYMS)}>:"
            elif raw.startswith("Disassembly of section") and do("section-header-change"):
                if rng.random() < 0.5:
                    continue
                raw = f"Disassembly of section {rng.choice(['.renamed'] + SECTION_NAMES)}:"
            elif "file format" in raw and do("file-header"):
                if rng.random() < 0.5:
                    continue
                raw = f"{rng.choice(BANNER_FILES)}:     file format {rng.choice(TARGETS)}"
            out.append(raw)
    if rng.random() < 0.3:
        out = ["", f"{rng.choice(BANNER_FILES + ['x.o'] * 6)}:     file format {rng.choice(TARGETS)}", ""] + out
        edits.append("file-header-added")
        if rng.random() < 0.3:
            out = [f"In archive {rng.choice(['libx.a', 'lib with blank.a', '/usr/lib/libc.a'])}:"] + out
            edits.append("archive-line-added")
    r9 = rng.random()
    if r9 < 0.12:
        edits.append("crlf-line-endings")        # the same listing saved with Windows line endings
        return "\r\n".join(out), edits
    if r9 < 0.16:
        edits.append("cr-line-endings")          # ... or with bare carriage returns (every universal-newline reader splits them)
        return "\r".join(out), edits
    if r9 < 0.19:
        edits.append("mixed-line-endings")
        return "".join(x + rng.choice(["\n", "\r\n", "\r"]) for x in out), edits
    return "\n".join(out), edits


def rules_for(rng, rinsts):
    rules = []
    for _ in range(3):
        ri = rng.choice(rinsts)
        name = ri.parsed.mnemonic
        if not name.isalnum():
            name = "mov"
        ops = [o for o in ri.ops_norm if o and re.fullmatch(r"[%a-z0-9]+", o)]
        if ops and rng.random() < 0.5:
            rules.append(real.dump_rule({"pattern": [{name: [rng.choice(ops)]}]}))
        elif rng.random() < 0.5 and len(rinsts) > 1:
            rules.append(real.dump_rule({"pattern": [name, {"$not": [name]}]}))
        else:
            rules.append(real.dump_rule({"pattern": [name]}))
    return rules


def judge(ctx, ws, text, origin):
    with ctx.ambient_log():
        if ctx.last_log_level != "warning":
            origin = origin + f" [logger at {ctx.last_log_level}]"
        return _judge(ctx, ws, text, origin)


def _judge(ctx, ws, text, origin):
    rinsts, stats = refline.read_listing(text)
    if not rinsts:
        return
    text2, edits = edit_listing(ctx.rng, text)
    p1, p2 = ws.write("a.s", text), ws.write("b.s", text2.encode())      # bytes: keep the chosen line endings as they are
    # the rule that asks for the stream sometimes configures valid_addr_range (a second observer in the chain), and sometimes a
    # run WITH the option on L precedes the plain comparison (nothing of that run may stick to the lines of L)
    mode = ctx.rng.random() if not origin.startswith("syn") else 1.0     # synthetic listings give branch mnemonics arbitrary operands, which the option rejects
    RANGE = "config:\n  valid_addr_range:\n    min: '0'\n    max: 'ffffffffffffffff'\npattern:\n  - zzzzzz\n"
    rule_text = RANGE if mode < 0.25 else "pattern:\n  - zzzzzz\n"
    if ctx.rng.random() < 0.25:
        # a rule that names sections (an option of the binary route): for a listing the banners stay presentation
        names = re.findall(r"Disassembly of section ([^:\n]+):", text) + [".text", ".init", "nosuch"]
        secs = ctx.rng.sample(sorted(set(names)), ctx.rng.randint(1, min(2, len(set(names)))))
        cfg = "config:\n  sections:\n" + "".join(f"    - {__import__('json').dumps(n)}\n" for n in secs)
        rule_text = cfg + (rule_text[len("config:\n"):] if rule_text.startswith("config:") else rule_text)
        ctx.event("pairs_compared_under_a_rule_naming_sections")
    if 0.25 <= mode < 0.45:
        pre = objd.real_stream(ws, p1, rule_text=RANGE)
        ctx.ran()
        ctx.event("range_run_preceding_plain_comparison" if pre[0] == "ok" else "range_run_raised")
    elif mode < 0.25:
        ctx.event("pairs_compared_under_valid_addr_range")
    r1 = objd.real_stream(ws, p1, rule_text=rule_text)
    if r1[0] != "ok":
        ctx.inconc("parser raised on the base listing (left to C08)" if mode >= 0.25 else "run with valid_addr_range raised (left to C18)")
        return
    r2 = objd.real_stream(ws, p2, rule_text=rule_text)
    ctx.ran(2)
    case = {"origin": origin, "listing": text[:60000], "edited": text2[:60000], "edits": sorted(set(edits)), "rule_text": rule_text}
    ctx.case((hash(text), tuple(edits)), text != text2 and len(rinsts) >= 3, stratum=origin.split(":")[0])
    for e in set(edits):
        ctx.event("edit:" + e)
    if r2[0] != "ok":
        ctx.disagreement(_shrink(case, text, text2), f"edited listing raised {r2[1]}: {r2[2]} (edits: {sorted(set(edits))})")
        return
    ctx.event("pairs_compared")
    if r1[1] != r2[1]:
        a, b = r1[1].split("|"), r2[1].split("|")
        k = next((i for i, (x, y) in enumerate(zip(a, b)) if x != y), min(len(a), len(b)))
        ctx.disagreement(_shrink(case, text, text2), f"stream changed under presentation edits {sorted(set(edits))}: record {k}: {a[k] if k < len(a) else None!r} -> {b[k] if k < len(b) else None!r} "
                               f"({len(a) - 1} -> {len(b) - 1} records)")
        return
    for rt in rules_for(ctx.rng, rinsts):
        rp = ws.write("r.yaml", rt)
        x = real.match(rp, p1, ret="list", search="all", only_addr=True)
        y = real.match(rp, p2, ret="list", search="all", only_addr=True)
        ctx.ran(2)
        if x[:2] != y[:2]:
            ctx.disagreement(case, f"rule result changed under presentation edits: {str(x[:2])[:150]} -> {str(y[:2])[:150]} for {rt!r}")
            return
        ctx.event("rule_results_compared")
    ctx.sample(origin.split(":")[0], {"origin": origin, "edits": sorted(set(edits)), "before": text[:400], "after": text2[:400]})


def _shrink(case, text, text2):
    return case


def huge_pair(ctx, ws, mib):
    """One very large listing (17 MiB in the quick tier, 17 and 33 MiB in the thorough tier) in two presentations: instruction rows starting in column 0 with 16-digit
    addresses (what `objdump -d vmlinux` prints) and the same rows indented by two blanks with a label and a banner."""
    n = mib * 1024 * 1024 // 44 + 1000
    rows = [f"{0xffffffff81000000 + 4 * j:016x}:\t{'90' if j % 3 else 'c3':<21}\t{'nop' if j % 3 else 'ret'}" for j in range(n)]
    a = "\n".join(rows) + "\n"
    b = "\nvmlinux:     file format elf64-x86-64\n\n\nDisassembly of section .text:\n\nffffffff81000000 <_text>:\n" + "\n".join("  " + r for r in rows) + "\n"
    p1, p2 = ws.write("huge_a.s", a), ws.write("huge_b.s", b)
    r1, r2 = objd.real_stream(ws, p1), objd.real_stream(ws, p2)
    ctx.ran(2)
    ctx.event("huge_pairs_compared")
    ctx.event("huge_pair_bytes", len(a))
    ctx.case(("huge", mib), True, stratum="huge listing pair")
    if r1[0] != "ok" or r2[0] != "ok" or r1[1] != r2[1] or r1[1].count("|") != n:
        ctx.disagreement({"origin": f"huge pair {mib} MiB", "listing": a[:2000], "edited": b[:2000], "edits": ["indent", "label", "section-header", "file-header"]},
                         f"a {len(a) >> 20} MiB listing of {n} instruction rows in column 0 yields {r1[1].count('|') if r1[0] == 'ok' else r1[1:3]} records, "
                         f"the same rows indented with banner and label yield {r2[1].count('|') if r2[0] == 'ok' else r2[1:3]}")


def run_shard(ctx):
    ws = real.Workspace()
    rng = ctx.rng
    if ctx.tier == "thorough" and ctx.shard < 2:
        huge_pair(ctx, ws, [17, 33][ctx.shard])
    elif ctx.tier != "thorough" and ctx.shard == 5 % ctx.nshards:
        huge_pair(ctx, ws, 17)
    fx = [f for f in objd.fixtures() if os.path.getsize(f) < 200_000]
    n = ctx.share(1500, 100000)
    for k in range(n):
        r = rng.random()
        if r < 0.45:
            blob, secs, bits = objd.random_object(rng, size=(40, 400))
            op = ws.write("o.bin", blob)
            rc, out, err = objd.disassemble(op)
            if rc != 0:
                continue
            judge(ctx, ws, out, f"elf{bits}")
        elif r < 0.55 and fx:
            f = rng.choice(fx)
            with open(f, encoding="utf-8", errors="replace") as fh:
                lines = fh.read().split("\n")
            a = rng.randrange(max(1, len(lines) - 60))
            judge(ctx, ws, "\n".join(lines[a:a + 60]), "fixture:" + os.path.basename(f))
        else:
            insts = L.gen_listing(rng, rng.choice([3, 8, 20, 40]))
            judge(ctx, ws, L.render(insts, rng), "syn")


def replay(ctx, case):
    ws = real.Workspace()
    p1, p2 = ws.write("a.s", case["listing"]), ws.write("b.s", case["edited"].encode())
    rt = case.get("rule_text") or "pattern:\n  - zzzzzz\n"
    r1, r2 = objd.real_stream(ws, p1, rule_text=rt), objd.real_stream(ws, p2, rule_text=rt)
    ctx.ran(2)
    if r1[0] == "ok" and (r2[0] != "ok" or r1[1] != r2[1]):
        ctx.disagreement(case, "stream differs between the listing and its edited presentation")
