"""C17 - failures are loud: an unscanned input is never reported as 'not found'."""
import builtins
import copy
import errno
import os
import stat
import subprocess
import sys

import yaml

from jv import harness, hooks, real, refline, stream
from jv.props import c14

LEVEL = "fault_enumeration"
RULE = ("Fixed fault list, fully enumerated in both tiers: every fault is injected alone into each valid (rule, input) base pair "
        "whose fault-free verdict is 'found' (assembly and binary inputs; rules with config, captures, own macros, extra macro "
        "files), through the API (bool and list mode) and - for a subset in quick, all in thorough - through `python -m "
        "jasm.main`. Faults: missing rule/input/macro file; directory instead of file; non-UTF-8 rule/input; `open` failpoint "
        "raising PermissionError / EIO (root cannot be denied by chmod); objdump absent from PATH; fake objdump exiting 1 / "
        "killed by a signal / printing garbage then exiting 2; subprocess.run failpoint raising OSError; truncated and garbled "
        "YAML; pattern missing / null / scalar / empty; config null / list / scalar; non-boolean full-match flags; sections "
        "scalar / list of ints; empty $or/$and/$and_any_order; $not with 0 and 2 arguments; $deref without main_reg / with an empty field list / empty body; times "
        "negative (int and min/max, both spellings), inverted, non-numeric; undefined macro (with and without definitions in "
        "play); macro name without '@'; macros not a list. Outcome error = held; any normal termination (False / [] / found / "
        "exit 0) = violation, because the statement requires the operation to terminate with an error; only for the two "
        "faults this harness adds beyond the statement's list (non-numeric times) 'found' is tolerated and shown. Trace rule (hook H3 on regex.search/finditer "
        "as seen from jasm.consumer): every API run that returns 'not found' must contain a scan event whose subject decodes to "
        "the R-line instruction list of the input named in the request (also evaluated on fault-free negative controls). "
        "Non-trivial = every (fault, base, route) execution; distinct = (fault, base, route).")
FLOOR = {"quick": 150, "thorough": 300}
ANCHOR_HINTS = ["shell_disassembler", "null_disassembler", "yaml2regex", "global_definitions", "pattern_node_builder", "ast_builder",
                "deref_classes", "macro_expander", "consumer"]
REQUIRED_EVENTS = ["fault_runs_judged"]     # the scan-hook rule is evaluated when the hook target exists, reported either way
SHARDS = {"quick": 16, "thorough": 16}

REC = hooks.Recorder()
_installed = False


def install():
    global _installed
    if not _installed:
        hooks.install_scan_hook(REC)
        _installed = True


def bases(ws):
    near = ws.write("near.s", c14.NEAR)
    elfp = ws.write("obj.bin", c14.the_elf())
    mx = {"macros": [{"name": "@two_push", "pattern": [{"$and": ["push", "push"]}]}]}
    B = [
        {"name": "asm-plain", "doc": {"pattern": [{"movq": ["%rax"]}, "call"]}, "input": near, "binary": False, "macros": None},
        {"name": "asm-config-capture", "doc": {"config": {"mnemonics-full-match": True, "operands-full-match": False, "style": "att"},
                                                "pattern": [{"push": ["&r"]}, {"push": ["&r"]}, {"add": ["rbx", "rax"]}]},
         "input": near, "binary": False, "macros": None},
        {"name": "asm-macros", "doc": {"macros": [{"name": "@c", "pattern": "call"}], "pattern": ["@c", "@two_push"]},
         "input": near, "binary": False, "macros": [mx]},
        {"name": "asm-times-or", "doc": {"pattern": [{"push": {"times": 2}}, {"$or": ["add", "sub"]}, {"$not": ["ret"]}]},
         "input": near, "binary": False, "macros": None},
        {"name": "bin-plain", "doc": {"pattern": ["push", "push", "ret"]}, "input": elfp, "binary": True, "macros": None},
        {"name": "bin-sections-macros", "doc": {"config": {"sections": [".text"], "style": "att"}, "pattern": [{"mov": ["%rax"]}, "@two_push"]},
         "input": elfp, "binary": True, "macros": [mx]},
    ]
    return B


# ------------------------------------------------------------------ rule-document faults

def _first_item_times(doc, t, sibling):
    d = copy.deepcopy(doc)
    it = d["pattern"][0]
    if isinstance(it, str):
        d["pattern"][0] = {it: {"times": t}} if not sibling else {it: [], "times": t}
        if sibling:
            d["pattern"][0] = {"$and": [it], "times": t}
    else:
        k = next(iter(it))
        body = it[k]
        if isinstance(body, dict):
            d["pattern"][0] = {k: {"times": t}}
        else:
            new = {k: body}
            new["times"] = t
            d["pattern"][0] = new
    return d


def rule_faults():
    F = []

    def f(name, fn):
        F.append((name, fn))

    def mod(**kw):
        def g(doc):
            d = copy.deepcopy(doc)
            d.update(kw)
            return d
        return g

    def cfg(**kw):
        def g(doc):
            d = copy.deepcopy(doc)
            c = dict(d.get("config") or {})
            c.update(kw)
            return {"config": c, **{k: v for k, v in d.items() if k != "config"}}
        return g

    def append(item):
        def g(doc):
            d = copy.deepcopy(doc)
            d["pattern"] = d["pattern"] + [item]
            return d
        return g
    f("pattern-missing", lambda doc: {k: v for k, v in doc.items() if k != "pattern"})
    f("pattern-null", mod(pattern=None))
    f("pattern-scalar", mod(pattern="push"))
    f("pattern-empty-list", mod(pattern=[]))
    f("config-null", mod(config=None))
    f("config-list", mod(config=["mnemonics-full-match"]))
    f("config-scalar", mod(config="att"))
    f("flag-mnemonics-string", cfg(**{"mnemonics-full-match": "false"}))
    f("flag-operands-string", cfg(**{"operands-full-match": "no"}))
    f("flag-operands-int", cfg(**{"operands-full-match": 1}))
    f("sections-scalar", cfg(sections=".text"))
    f("sections-ints", cfg(sections=[1, 2]))
    f("empty-or", append({"$or": []}))
    f("empty-and", append({"$and": []}))
    f("empty-any-order", append({"$and_any_order": []}))
    f("not-zero-args", append({"$not": []}))
    f("not-two-args", append({"$not": ["zz", "yy"]}))
    # the same group faults in OPERAND position and inside a $deref field
    f("operand-not-two-args", append({"zz": [{"$not": ["%rax", "%rbx"]}]}))
    f("operand-not-zero-args", append({"zz": ["%rax", {"$not": []}]}))
    f("operand-empty-or", append({"zz": [{"$or": []}]}))
    f("operand-empty-and", append({"zz": ["%rax", {"$and": []}]}))
    f("operand-empty-any-order", append({"zz": [{"$and_any_order": []}]}))
    f("deref-field-empty-or", append({"zz": [{"$deref": {"main_reg": [{"$or": []}]}}]}))
    f("deref-field-not-two-args", append({"zz": [{"$deref": {"main_reg": [{"$not": ["%rax", "%rbx"]}]}}]}))
    f("nested-empty-or-inside-and", append({"$and": ["zz", {"$or": []}]}))
    f("nested-not-two-args-inside-or", append({"$or": ["zz", {"$not": ["aa", "bb"]}]}))
    f("deref-without-main-reg", append({"zz": [{"$deref": {"constant_offset": "0x8"}}]}))
    f("deref-without-main-reg-index-only", append({"zz": [{"$deref": {"register_multiplier": "%rax", "constant_multiplier": 8, "constant_offset": "0x0"}}]}))
    f("deref-without-main-reg-index", append({"zz": ["%rbx", {"$deref": {"register_multiplier": "rcx"}}]}))
    f("deref-field-empty-list", append({"zz": [{"$deref": {"main_reg": [], "constant_offset": "0x8"}}]}))
    f("deref-empty-body", append({"zz": [{"$deref": {}}]}))
    f("deref-field-two-values", append({"zz": [{"$deref": {"main_reg": ["%rax", "%rbx"]}}]}))
    f("operand-list-item-null", append({"zz": [None]}))
    f("item-null", append(None))
    f("item-nested-list", append([["ret"]]))
    f("operand-nested-list", append({"zz": [["%rax"]]}))
    f("times-negative-int", lambda doc: _first_item_times(doc, -1, False))
    f("times-negative-int-sibling", lambda doc: _first_item_times(doc, -2, True))
    f("times-negative-min", lambda doc: _first_item_times(doc, {"min": -1, "max": 2}, False))
    f("times-negative-max", lambda doc: _first_item_times(doc, {"min": -3, "max": -1}, True))
    f("times-inverted", lambda doc: _first_item_times(doc, {"min": 3, "max": 1}, False))
    f("times-inverted-sibling", lambda doc: _first_item_times(doc, {"min": 2, "max": 1}, True))
    # ... the same ill-formed bounds on nodes that are captures (a whole-instruction capture as an item, an operand capture and a
    # register-family capture written as mappings so that they can carry `times`)
    def _prepend(doc, item):
        d = copy.deepcopy(doc)
        d["pattern"] = [item] + list(d["pattern"])
        return d
    f("times-negative-on-instruction-capture", lambda doc: _prepend(doc, {"&anyinst": {"times": -1}}))
    f("times-inverted-on-instruction-capture", lambda doc: _prepend(doc, {"&anyinst": [], "times": {"min": 3, "max": 1}}))
    f("times-negative-on-operand-capture", lambda doc: _prepend(doc, {"mov": [{"&anyop": [], "times": -1}]}))
    f("times-inverted-on-register-capture", lambda doc: _prepend(doc, {"mov": [{"&genreg-t": [], "times": {"min": 2, "max": 1}}]}))
    f("times-non-numeric", lambda doc: _first_item_times(doc, "many", False))
    f("times-non-numeric-sibling", lambda doc: _first_item_times(doc, "many", True))
    f("undefined-macro-with-definitions", lambda doc: {**copy.deepcopy(doc), "macros": (doc.get("macros") or []) + [{"name": "@defd", "pattern": "ret"}],
                                                       "pattern": doc["pattern"] + ["@undefined_thing"]})
    # an undefined name that only appears once a defined macro has been expanded (value/list position and key position)
    f("undefined-macro-inside-macro-body", lambda doc: {**copy.deepcopy(doc), "macros": (doc.get("macros") or []) + [{"name": "@wrap_u", "pattern": [{"$and": ["ret", "@undefined_thing"]}]}],
                                                        "pattern": doc["pattern"] + ["@wrap_u"]})
    f("undefined-macro-key-inside-macro-body", lambda doc: {**copy.deepcopy(doc), "macros": (doc.get("macros") or []) + [{"name": "@wrap_k", "pattern": [{"@undefined_thing": {"times": 2}}]}],
                                                            "pattern": doc["pattern"] + ["@wrap_k"]})
    f("undefined-macro-inside-first-listed-macro-body", lambda doc: {**copy.deepcopy(doc), "macros": [{"name": "@wrap_f", "pattern": [{"zz": ["%rax", "@undefined_thing"]}]}] + (doc.get("macros") or []),
                                                                     "pattern": ["@wrap_f"] + doc["pattern"]})
    f("undefined-macro-empty-macro-file", lambda doc: {**{k: v for k, v in copy.deepcopy(doc).items() if k != "macros"},
                                                       "pattern": [p for p in doc["pattern"] if not (isinstance(p, str) and p.startswith("@"))] + ["@undefined_thing"]})
    f("undefined-macro-no-definitions", lambda doc: {**{k: v for k, v in copy.deepcopy(doc).items() if k != "macros"},
                                                     "pattern": [p for p in doc["pattern"] if not (isinstance(p, str) and p.startswith("@"))] + ["@undefined_thing"]})
    f("macro-name-without-at", lambda doc: {**copy.deepcopy(doc), "macros": (doc.get("macros") or []) + [{"name": "plain", "pattern": "ret"}]})
    f("macros-not-a-list", mod(macros={"name": "@x", "pattern": "ret"}))
    return F


TEXT_FAULTS = [
    ("yaml-truncated", lambda t: t[: max(10, len(t) // 2)].rstrip() + "\n- {unclosed: [1, 2\n"),
    ("yaml-garbled", lambda t: t.replace("pattern:", "pattern: {", 1)),
    ("yaml-tabs", lambda t: t.replace("\n- ", "\n\t- ", 1)),
    ("rule-not-utf8", lambda t: t.encode() + b"\n# \xff\xfe\xfa\n"),
    # single characters that make the document ill-formed for a YAML 1.1 loader (each is injected only if the harness's own loader rejects it)
    ("yaml-tab-after-colon", lambda t: t.replace("pattern:\n", "pattern:\t\n", 1) if "pattern:\n" in t else t.replace(": ", ":\t", 1)),
    ("yaml-tab-separator-in-key-value", lambda t: __import__("re").sub(r"(?m)^(- \w+):$", lambda m: m.group(1) + ":\t[x]", t, count=1)),
    ("yaml-question-mark-in-flow-sequence", lambda t: t.rstrip("\n") + "\n- {zz: [jmp?, call]}\n"),
    ("yaml-question-mark-in-flow-mapping", lambda t: t.rstrip("\n") + "\n- nop: {times: {min: 1, max? 3}}\n"),
    ("yaml-two-documents", lambda t: t.rstrip("\n") + "\n---\npattern:\n- ret\n"),
    ("yaml-unterminated-quote", lambda t: t.rstrip("\n") + "\n- 'ret\n"),
    ("yaml-bad-escape-in-double-quotes", lambda t: t.rstrip("\n") + '\n- "re\\qt"\n'),
    ("yaml-control-character", lambda t: t.replace("pattern:", "pattern:\x01", 1)),
    ("yaml-undefined-alias", lambda t: t.rstrip("\n") + "\n- *nowhere\n"),
    ("yaml-duplicate-anchor-misuse", lambda t: t.rstrip("\n") + "\n- &a [&a x, *a\n"),
    ("yaml-tab-indentation-nested", lambda t: t.rstrip("\n") + "\n- zz:\n\t- '%rax'\n"),
    ("yaml-bad-directive", lambda t: "%YAML 9.9 bogus\n---\n" + t),
]


class Env:
    """Temporary process-level fault (PATH, failpoints)."""

    def __init__(self):
        self.undo = []

    def __enter__(self):
        return self

    def __exit__(self, *a):
        for u in reversed(self.undo):
            u()

    def path(self, d):
        old = os.environ.get("PATH", "")
        os.environ["PATH"] = d
        self.undo.append(lambda: os.environ.__setitem__("PATH", old))

    def open_failpoint(self, target, exc):
        real_open = builtins.open

        def fake(*a, **k):
            f = k.get("file", a[0] if a else None)
            if isinstance(f, (str, bytes, os.PathLike)) and os.path.abspath(os.fsdecode(f)) == os.path.abspath(target):
                raise exc
            return real_open(*a, **k)
        builtins.open = fake
        self.undo.append(lambda: setattr(builtins, "open", real_open))

    def regex_timeout_failpoint(self):
        """The regular-expression engine gives up (its time budget is exhausted) the moment the matcher is applied."""
        from jasm import consumer as co
        rx = co.regex

        class Giving_up:
            def __getattr__(self, name):
                return getattr(rx, name)

            def search(self, *a, **k):
                raise TimeoutError("regex timed out (injected)")

            def finditer(self, *a, **k):
                # the engine's finditer is lazy: the budget runs out while the caller iterates, not when the iterator is made
                def gen():
                    raise TimeoutError("regex timed out (injected)")
                    yield None          # pragma: no cover
                return gen()
        co.regex = Giving_up()
        self.undo.append(lambda: setattr(co, "regex", rx))

    def run_failpoint(self, exc):
        real_run = subprocess.run

        def fake(*a, **k):
            raise exc
        subprocess.run = fake
        self.undo.append(lambda: setattr(subprocess, "run", real_run))


def fake_objdump(ws, name, script):
    d = ws.path("fake_" + name)
    os.makedirs(d, exist_ok=True)
    p = os.path.join(d, "objdump")
    with open(p, "w") as f:
        f.write(script)
    os.chmod(p, os.stat(p).st_mode | stat.S_IEXEC | stat.S_IXGRP | stat.S_IXOTH)
    return d


def expected_records(path, binary, sections=None):
    if binary:
        cmd = ["objdump", "-d", "-M", "att"]
        for s in sections or []:
            cmd += ["-j", s]
        text = subprocess.run(cmd + [path], capture_output=True, text=True).stdout
    else:
        with open(path, encoding="utf-8", errors="replace") as f:
            text = f.read()
    return [ri.addr for ri in refline.read_listing(text)[0]]


def scan_ok(events, want_addrs):
    """A scan event whose subject decodes to the instruction list (addresses) of the requested input."""
    for e in events:
        if e[0] == "scan" and isinstance(e[3], str):
            try:
                if [d[0] for d in stream.decode(e[3])] == want_addrs:
                    return True
            except stream.StreamError:
                continue
    return False


def api_run(rule_path, inp, binary, macros, ret):
    REC.clear()
    r = real.match(rule_path, inp, binary=binary, ret=ret, search="all" if ret == "list" else "first", macros=macros)
    return r, list(REC.events)


# Faults that are NOT in the statement's list (additions of this harness): for them only a silent 'not found' is a
# violation and 'found' is shown as tolerated. For every other fault the statement requires the operation to
# terminate with an error, so 'found' is a violation as well.
TOLERANT_FAULTS = {"times-non-numeric", "times-non-numeric-sibling"}


def classify_outcome(r):
    if r[0] == "exc":
        return "error"
    return "found" if r[1] else "not found"


def judge_api(ctx, ws, fault, base, rule_path, inp, macros, envfn=None, key=None):
    for ret in ("bool", "list"):
        with Env() as env:
            if envfn:
                envfn(env)
            r, events = api_run(rule_path, inp, base["binary"], macros, ret)
        ctx.ran()
        out = classify_outcome(r)
        ctx.event("fault_runs_judged")
        ctx.case((fault, base["name"], "api-" + ret), True, stratum=fault, outcome=out)
        ctx.event("api:" + out)
        if out == "found" and fault in TOLERANT_FAULTS:
            ctx.event("tolerated:" + fault)
        if out == "not found" or (out == "found" and fault not in TOLERANT_FAULTS):
            try:
                rt = open(rule_path, "rb").read().decode("utf-8", "replace")
            except Exception:  # noqa: BLE001
                rt = None
            ctx.disagreement({"fault": fault, "base": base["name"], "route": "api-" + ret, "rule": rt,
                              "input": inp, "binary": base["binary"]},
                             f"fault '{fault}' injected into base '{base['name']}' (fault-free verdict: found): the API returned {str(r[1])[:80]!r} "
                             f"instead of raising; scan events: {len([e for e in events if e[0] == 'scan'])}", key)
            return
    ctx.sample(fault, {"fault": fault, "base": base["name"], "outcome": out, "detail": list(r[:3])[1:3] if r[0] == "exc" else str(r[1])[:80]})


def judge_cli(ctx, ws, fault, base, rule_path, inp, macros, env_path=None, key=None):
    cwd = ws.path("cli_cwd")
    os.makedirs(cwd, exist_ok=True)
    cmd = [harness.PY, "-m", "jasm.main", "-p", rule_path, "-b" if base["binary"] else "-s", inp]
    if macros:
        cmd += ["--macros"] + macros
    env = harness.child_env()
    if env_path is not None:
        env["PATH"] = env_path
    try:
        p = subprocess.run(cmd, cwd=cwd, env=env, capture_output=True, text=True, timeout=120)
    except subprocess.TimeoutExpired:
        ctx.inconc("CLI run timed out")
        return
    ctx.ran()
    ctx.event("fault_runs_judged")
    if p.returncode != 0:
        out = "error"
    elif "RESULT: Pattern found" in p.stderr:
        out = "found"
    elif "RESULT: Pattern not found" in p.stderr:
        out = "not found"
    else:
        out = "exit 0 without a RESULT line"
    ctx.case((fault, base["name"], "cli"), True, stratum=fault, outcome="cli:" + out)
    ctx.event("cli:" + out)
    if out in ("not found", "exit 0 without a RESULT line") or (out == "found" and fault not in TOLERANT_FAULTS):
        ctx.disagreement({"fault": fault, "base": base["name"], "route": "cli", "argv": cmd, "stderr_tail": p.stderr[-600:]},
                         f"fault '{fault}' injected into base '{base['name']}': `jasm` exited 0 with '{out}'", key)


def all_jobs(ws, B):
    """[(fault name, base index, kind, payload)]"""
    jobs = []
    for bi, b in enumerate(B):
        for name, fn in rule_faults():
            jobs.append((name, bi, "doc", fn))
        for name, fn in TEXT_FAULTS:
            jobs.append((name, bi, "text", fn))
        for name in ("rule-file-missing", "rule-is-directory", "input-file-missing", "input-is-directory",
                     "open-failpoint-rule-EACCES", "open-failpoint-rule-EIO", "regex-timeout-failpoint"):
            jobs.append((name, bi, "file", None))
        if not b["binary"]:
            for name in ("input-not-utf8", "open-failpoint-input-EACCES", "open-failpoint-input-EIO"):
                jobs.append((name, bi, "file", None))
        else:
            for name in ("objdump-absent", "objdump-exit-1", "objdump-killed", "objdump-garbage-exit-2", "subprocess-run-OSError",
                         "input-not-an-object", "objdump-partial-output-then-killed", "objdump-partial-output-then-exit-1",
                         "objdump-partial-output-then-sigterm", "input-archive-with-a-rejected-member"):
                jobs.append((name, bi, "file", None))
        if b["macros"]:
            for name in ("macro-file-missing", "macro-file-is-directory", "macro-file-garbled", "open-failpoint-macro-EACCES"):
                jobs.append((name, bi, "file", None))
    return jobs


def run_job(ctx, ws, B, job, with_cli):
    fault, bi, kind, payload = job
    base = B[bi]
    macros = [ws.write(f"b{bi}_m{j}.yaml", real.dump_rule(m)) for j, m in enumerate(base["macros"])] if base["macros"] else None
    good_rule = ws.write(f"b{bi}_rule.yaml", real.dump_rule(base["doc"]))
    inp = base["input"]
    rule_path, envfn, env_path = good_rule, None, None
    if kind == "doc":
        try:
            doc = payload(base["doc"])
        except Exception:  # noqa: BLE001
            return
        rule_path = ws.write("fault_rule.yaml", real.dump_rule(doc))
        if fault == "undefined-macro-empty-macro-file":
            # macro files ARE given, they just define nothing: the expander runs and has to report the name
            macros = [ws.write("empty_macros.yaml", "macros: []\n")] + ([ws.write("empty_macros2.yaml", "macros: []\n")] if bi % 2 else [])
    elif kind == "text":
        bad = payload(real.dump_rule(base["doc"]))
        try:
            yaml.safe_load(bad if isinstance(bad, str) else bad.decode("utf-8"))
            ctx.event("injector_produced_valid_yaml_skipped")
            return      # the injected text is still a well-formed document: not a fault
        except Exception:  # noqa: BLE001
            pass
        rule_path = ws.write("fault_rule.yaml", bad)
    else:
        if fault == "rule-file-missing":
            rule_path = ws.path("does_not_exist.yaml")
        elif fault == "rule-is-directory":
            rule_path = ws.dir
        elif fault == "input-file-missing":
            inp = ws.path("does_not_exist.bin")
        elif fault == "input-is-directory":
            inp = ws.dir
        elif fault == "input-not-utf8":
            inp = ws.write("bad.s", open(base["input"], "rb").read() + b"\n  401011:\t90 \tnop \xff\xfe\n")
        elif fault == "input-not-an-object":
            inp = ws.write("notobj.bin", b"this is not an object file\n" * 10)
        elif fault == "input-archive-with-a-rejected-member":
            # a real `ar` archive: the base object next to a member objdump cannot read; objdump prints the good member and exits 1
            import shutil
            ar = shutil.which("ar")
            if not ar:
                return
            good = ws.write("member_ok.o", open(base["input"], "rb").read())
            junk = ws.write("junk.txt", "this is not an object\n")
            lib = ws.path("libmixed.a")
            if os.path.exists(lib):
                os.remove(lib)
            if subprocess.run([ar, "rcs", lib, good, junk], capture_output=True).returncode != 0:
                return
            chk = subprocess.run(["objdump", "-d", "-M", "att", lib], capture_output=True, text=True)
            if chk.returncode == 0:
                ctx.event("objdump_accepts_the_mixed_archive_not_a_fault")
                return
            inp = lib
        elif fault.startswith("open-failpoint-"):
            which, err = fault.split("-")[2], fault.split("-")[3]
            target = {"rule": good_rule, "input": inp, "macro": macros[0] if macros else good_rule}[which]
            exc = PermissionError(errno.EACCES, "Permission denied (injected)") if err == "EACCES" else OSError(errno.EIO, "Input/output error (injected)")
            envfn = lambda env: env.open_failpoint(target, exc)  # noqa: E731
        elif fault == "objdump-absent":
            d = ws.path("emptybin")
            os.makedirs(d, exist_ok=True)
            envfn = lambda env: env.path(d)  # noqa: E731
            env_path = d
        elif fault in ("objdump-exit-1", "objdump-killed", "objdump-garbage-exit-2", "objdump-partial-output-then-killed",
                       "objdump-partial-output-then-exit-1", "objdump-partial-output-then-sigterm"):
            half = ("printf '\\nobj.bin:     file format elf64-x86-64\\n\\n\\nDisassembly of section .text:\\n\\n0000000000401000 <main>:\\n"
                    "  401000:\\t48 89 c3             \\tmov    %%rax,%%rbx\\n  401003:\\t53                   \\tpush   %%rbx\\n'\n")
            script = {"objdump-exit-1": "#!/bin/sh\necho 'objdump: file format not recognized' >&2\nexit 1\n",
                      "objdump-killed": "#!/bin/sh\nkill -9 $$\n",
                      "objdump-partial-output-then-killed": "#!/bin/sh\n" + half + "kill -9 $$\n",
                      "objdump-partial-output-then-sigterm": "#!/bin/sh\n" + half + "kill -TERM $$\nsleep 1\n",
                      "objdump-partial-output-then-exit-1": "#!/bin/sh\n" + half + "echo 'objdump: error: section truncated' >&2\nexit 1\n",
                      "objdump-garbage-exit-2": "#!/bin/sh\necho '  401000:\t53 \tpush %rbx'\nexit 2\n"}[fault]
            d = fake_objdump(ws, fault, script)
            envfn = lambda env: env.path(d + os.pathsep + "/usr/bin:/bin")  # noqa: E731
            env_path = d + os.pathsep + "/usr/bin:/bin"
        elif fault == "regex-timeout-failpoint":
            envfn = lambda env: env.regex_timeout_failpoint()  # noqa: E731
        elif fault == "subprocess-run-OSError":
            envfn = lambda env: env.run_failpoint(OSError(errno.ENOMEM, "Cannot allocate memory (injected)"))  # noqa: E731
        elif fault == "macro-file-missing":
            macros = [ws.path("no_such_macros.yaml")]
        elif fault == "macro-file-is-directory":
            macros = [ws.dir]
        elif fault == "macro-file-garbled":
            macros = [ws.write("bad_macros.yaml", "macros:\n  - name: '@two_push'\n    pattern: [unclosed\n")]
    # the open finding is "no macro defined ANYWHERE": with an extra macro file in play the expander runs and must report the name
    key = "undefined_macro_without_definitions" if fault == "undefined-macro-no-definitions" and not macros else None
    judge_api(ctx, ws, fault, base, rule_path, inp, macros, envfn, key)
    cli_ok = with_cli and not fault.startswith("open-failpoint") and fault not in ("subprocess-run-OSError", "regex-timeout-failpoint")
    if cli_ok:
        judge_cli(ctx, ws, fault, base, rule_path, inp, macros, env_path, key)


def negative_controls(ctx, ws, B):
    """Fault-free rules that are genuinely not found: the scan must have happened on the requested input."""
    for b in B:
        doc = copy.deepcopy(b["doc"])
        doc["pattern"] = doc["pattern"] + ["zzzz_not_there"]
        rp = ws.write("neg.yaml", real.dump_rule(doc))
        macros = [ws.write(f"neg_m{j}.yaml", real.dump_rule(m)) for j, m in enumerate(b["macros"])] if b["macros"] else None
        want = expected_records(b["input"], b["binary"], (doc.get("config") or {}).get("sections"))
        for ret in ("bool", "list"):
            r, events = api_run(rp, b["input"], b["binary"], macros, ret)
            ctx.ran()
            if r[0] != "ok" or r[1]:
                ctx.inconc("negative control did not return not-found")
                continue
            if any(e[0] == "scan" for e in events) or not REC.missing:
                ctx.event("negative_controls_scan_checked")
                if not scan_ok(events, want):
                    ctx.disagreement({"base": b["name"], "rule": real.dump_rule(doc)},
                                     f"'not found' was returned for base '{b['name']}' without a scan of the requested input "
                                     f"({len(want)} instructions expected; scan events: {[ (e[1], len(e[3] or '')) for e in events if e[0]=='scan']})")


def run_shard(ctx):
    install()
    for m in REC.missing:
        ctx.event("hook_missing:" + m)
    ws = real.Workspace()
    B = bases(ws)
    # fault-free verdicts must be 'found'
    usable = []
    for bi, b in enumerate(B):
        macros = [ws.write(f"b{bi}_m{j}.yaml", real.dump_rule(m)) for j, m in enumerate(b["macros"])] if b["macros"] else None
        rp = ws.write(f"b{bi}_rule.yaml", real.dump_rule(b["doc"]))
        r = real.match(rp, b["input"], binary=b["binary"], ret="bool", macros=macros)
        ctx.ran()
        if r[0] == "ok" and r[1] is True:
            usable.append(bi)
        else:
            ctx.inconc(f"base pair {b['name']} is not found fault-free: {str(r[:2])[:120]}")
    jobs = [j for j in all_jobs(ws, B) if j[1] in usable]
    if ctx.shard == 0:
        negative_controls(ctx, ws, B)
    for i, job in enumerate(jobs):
        if i % ctx.nshards != ctx.shard:
            continue
        with_cli = ctx.tier == "thorough" or (i // ctx.nshards) % 4 == 0
        run_job(ctx, ws, B, job, with_cli)


def replay(ctx, case):
    install()
    ws = real.Workspace()
    B = bases(ws)
    for job in all_jobs(ws, B):
        if job[0] == case["fault"] and B[job[1]]["name"] == case["base"]:
            run_job(ctx, ws, B, job, case.get("route") == "cli")
