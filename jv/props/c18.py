"""C18 - valid_addr_range tags exactly the direct calls/jumps that land in the range."""
import re

from jv import listing as L, real, stream

LEVEL = "exploration"
RULE = ("S-syn listings mixing direct branches (call/jmp/callq/jmpq/jcc with targets at min-1, min, max, max+1, inside, far "
        "outside, with different digit counts), indirect branches (*%rax, *0x8(%rip), *(%rax,%rbx,8)), push/mov of immediates "
        "and absolute memory operands that look like in-range addresses, operand-less instructions; ranges with min=max, "
        "min<max, bounds spelled with/without 0x, upper/lower case, leading zeros; 12 % of the listings have CRLF line ends (symbol-less "
        "targets are then the last token before the line end); a binary stratum runs objects assembled from templates through the "
        "binary route with ranges chosen around the printed targets. Each listing is run with and without the "
        "option (all_instructions_string); invariant on the decoded streams: number/order/addresses identical; direct "
        "call/jmp with min<=T<=max has operands exactly ['valid_addr']; callq/jmpq/jcc in range may be tagged (counted, not "
        "judged); every other instruction keeps its operands; without the option nothing is rewritten (stream equals the "
        "run with a range that contains no target). Also rules `call: [valid_addr]` / `jmp: [valid_addr]` in all-matches "
        "mode against the expected address set. Non-trivial = the listing has a direct call/jmp with T in "
        "{min-1,min,max,max+1}; distinct = (listing, range).")
FLOOR = {"quick": 200, "thorough": 3000}
ANCHOR_HINTS = ["match.py", "global_definitions", "consumer"]
REQUIRED_EVENTS = ["stream_pairs_judged", "must_tag_seen", "must_not_tag_seen", "binary_inputs_judged", "crlf_listings_judged"]

MUST = {"call", "jmp"}
MAY = {"callq", "jmpq", "jne", "je", "jg", "jge", "jl", "jle", "jz", "jnz", "jb", "js", "ja", "jmpl"}


def spell(rng, v: int) -> str:
    h = format(v, "x")
    r = rng.random()
    if r < 0.3:
        return "0x" + h
    if r < 0.5:
        return h
    if r < 0.6:
        return "0x" + h.upper()
    if r < 0.65:
        return "0X" + h               # int(text, 16) reads this prefix too
    if r < 0.8:
        return "0x" + "0" * rng.randint(1, 4) + h
    return h.upper()


def gen(rng):
    lo = rng.choice([0x10, 0x401000, 0xfff, 0x1000, 0x7ff0, 0x100000000, 0, 0, 1])      # 0: ranges that start (and may end) at address 0
    hi = lo if rng.random() < 0.25 else lo + rng.choice([1, 0xf, 0x100, 0xfff1, 0x10000000])
    edge = [lo - 1, lo, hi, hi + 1, (lo + hi) // 2, lo * 16, max(0, lo // 16), hi * 16 + 1, 0]
    if rng.random() < 0.08:
        # "everything from here up": an upper bound of 2**64 and beyond (17 hexadecimal digits) with targets in the higher half
        lo = rng.choice([0x7ff0, 0xffffffff80000000, 0x401000, 0])
        hi = rng.choice([2 ** 64, 2 ** 64 + 0x100, 2 ** 68, 2 ** 64 - 1])
        edge = [lo - 1, lo, lo + 1, 0xffffffff81000000, 2 ** 64 - 1, 0x2000000000000000, 0xffffffffffffff00, 0, lo // 2]
    insts = []
    addr = rng.choice([0x400ff0, 0x10, lo])
    for _ in range(rng.choice([4, 8, 16, 30])):
        r = rng.random()
        nb = rng.randint(1, 11)         # > 7 bytes: objdump adds a byte-continuation line (pseudo instruction in the parser)
        if r < 0.4:
            m = rng.choice(["call", "jmp", "call", "jmp", "callq", "jmpq", "je", "jne", "jb", "jg", "jz", "js"])
            t = max(0, rng.choice(edge))
            ann = rng.choice([None, "<f+0x10>", "<main>"])
            insts.append(L.SInst(addr, m, [format(t, "x")], ann, None, nb))
        elif r < 0.5:
            m = rng.choice(["call", "jmp", "callq", "jmpq"])
            insts.append(L.SInst(addr, m, [rng.choice(["*%rax", "*0x8(%rip)", "*(%rax,%rbx,8)", f"*0x{lo:x}(%rip)", f"*0x{lo:x}"])], None, None, nb))
        elif r < 0.62:
            t = max(0, rng.choice(edge))
            m, ops = rng.choice([("push", [f"$0x{t:x}"]), ("mov", [f"$0x{t:x}", "%eax"]), ("mov", [f"0x{t:x}", "%eax"]),
                                 ("cmp", [f"$0x{t:x}", "%rdi"]), ("lea", [f"0x{t:x}(%rip)", "%rax"])])
            insts.append(L.SInst(addr, m, ops, None, None, nb))
        elif r < 0.66:
            # far branches of 16/32-bit code: two immediates (segment selector, offset) - not a direct call/jmp to one address
            sel, t = max(0, rng.choice(edge)), max(0, rng.choice(edge))
            insts.append(L.SInst(addr, rng.choice(["ljmp", "lcall", "ljmpw", "lcallw"]), [f"$0x{sel:x}", f"$0x{t:x}"], None, None, nb))
        elif r < 0.72:
            insts.append(L.SInst(addr, rng.choice(["ret", "nop", "leave", "int3"]), [], None, None, nb))
        else:
            m, ops = L.rand_inst_body(rng, mnems=["mov", "add", "sub", "push", "pop", "xor", "lea", "cmp", "test"])
            if ops == ["@target"]:
                ops = ["%rax"]
            insts.append(L.SInst(addr, m, ops, None, None, nb))
        addr += nb
    return insts, lo, hi


DIRECT = re.compile(r"^[0-9a-f]+$")


def judge(ctx, ws, insts, lo, hi, lo_s, hi_s, text=None, crlf=False, binary_b64=None, macro_lib=None):
    with ctx.ambient_log():
        return _judge(ctx, ws, insts, lo, hi, lo_s, hi_s, text, crlf, binary_b64, macro_lib)


def _judge(ctx, ws, insts, lo, hi, lo_s, hi_s, text=None, crlf=False, binary_b64=None, macro_lib=None):
    text = text or L.render(insts, ctx.rng)
    binary = binary_b64 is not None
    if binary:
        lp = ws.write("o.bin", __import__("base64").b64decode(binary_b64))
        ctx.event("binary_inputs_judged")
    else:
        lp = ws.write("l.s", (text.replace("\n", "\r\n") if crlf else text).encode())
        if crlf:
            ctx.event("crlf_listings_judged")
    with_rule = real.dump_rule({"config": {"valid_addr_range": {"min": lo_s, "max": hi_s}}, "pattern": ["zzzzzz"]})
    macros = [ws.write("lib_with_config.yaml", macro_lib)] if macro_lib else None
    if macros is None and ctx.rng.random() < 0.15:
        # a macro library that is itself a complete rule file (config block, pattern, macros): only its macros are borrowed
        lib = {"config": ctx.rng.choice([{"mnemonics-full-match": False}, {"style": "att"}, {"operands-full-match": False, "sections": [".text"]}]),
               "macros": [{"name": "@unused_lib_macro", "pattern": "hlt"}], "pattern": ["ret"]}
        macros = [ws.write("lib_with_config.yaml", real.dump_rule(lib))]
        ctx.event("runs_with_a_macro_library_that_has_a_config_block")
    r_with = real.match(ws.write("w.yaml", with_rule), lp, ret="stream", binary=binary, macros=macros)
    r_wo = real.match(ws.write("wo.yaml", real.dump_rule({"pattern": ["zzzzzz"]})), lp, ret="stream", binary=binary)
    ctx.ran(2)
    if r_with[0] == "ok" and ctx.rng.random() < 0.15:
        # history: a rule that is REJECTED while its config is being loaded (a range of its own, then an ill-typed sections entry), then the
        # same good rule again - the good rule still means its own range
        bad = real.dump_rule({"config": {"valid_addr_range": {"min": "0", "max": "ffffffffffff"}, "sections": "not-a-list"}, "pattern": ["zzzzzz"]})
        rb = real.match(ws.write("bad_cfg.yaml", bad), lp, ret="stream", binary=binary)
        again = real.match(ws.path("w.yaml"), lp, ret="stream", binary=binary, macros=macros)
        ctx.ran(2)
        ctx.event("good_rule_rerun_after_a_rejected_config" if rb[0] == "exc" else "config_with_ill_typed_sections_was_accepted")
        if again[0] != "ok" or again[1] != r_with[1]:
            ctx.disagreement({"listing": text, "min": lo_s, "max": hi_s, "crlf": crlf, "binary_b64": binary_b64, "history": "rejected-config"},
                             f"the rule with valid_addr_range {lo_s}..{hi_s} builds another stream after a rule whose config was rejected half-way had been tried")
            return
    case = {"listing": text, "min": lo_s, "max": hi_s, "crlf": crlf, "binary_b64": binary_b64, "macro_lib": open(macros[0]).read() if macros else None}
    if r_wo[0] != "ok":
        ctx.inconc("parser raised without the option (left to C08)")
        return
    if r_with[0] != "ok":
        ctx.disagreement(case, f"run with valid_addr_range {lo_s}..{hi_s} raised {r_with[1]}: {r_with[2]}")
        return
    try:
        a, b = stream.decode(r_wo[1]), stream.decode(r_with[1])
    except stream.StreamError as e:
        ctx.inconc(f"stream undecodable (left to C10): {e}")
        return
    ctx.event("stream_pairs_judged")
    if [(x[0]) for x in a] != [(x[0]) for x in b]:
        ctx.disagreement(case, f"number/order/addresses of instructions changed by the option: {len(a)} -> {len(b)} records")
        return
    exp_call, exp_jmp = [], []
    boundary = False
    # which instruction is a direct branch, and where it goes, is read from the LISTING (the synthetic instruction list, or R-line's
    # reading of the objdump text), not from the stream the code under test built without the option
    if insts is not None:
        truth = []
        for si in insts:
            try:
                truth.append(si.fields())
            except ValueError:
                truth.append(None)          # operand shapes outside the normal-form table (indirect targets): never a direct branch
    else:
        from jv import refline
        truth = [(ri.addr, ri.parsed.mnemonic, tuple(o if o is not None else "?" for o in ri.ops_norm) or ("",)) if not ri.parsed.prefixes else None
                 for ri in refline.read_listing(text)[0]]
    if len(truth) != len(a):
        ctx.inconc("record count differs from the listing without the option (left to C08)")
        return
    for tr, (ad, m, ops), (_, m2, ops2) in zip(truth, a, b):
        tops = tr[2] if tr is not None else ("?",)
        if tr is not None and "?" not in tops and tuple(ops) != tuple(tops):
            ctx.disagreement(case, f"WITHOUT the option the operands of {m} at {ad} are {list(ops)}, the listing has {list(tops)} (the run without the option "
                                   f"follows one with the option in the same process)")
            return
        direct = len(tops) >= 1 and DIRECT.match(tops[0]) is not None
        t = int(tops[0], 16) if direct else None
        inr = direct and lo <= t <= hi
        if m != m2:
            ctx.disagreement(case, f"mnemonic of {ad} changed by the option: {m} -> {m2}")
            return
        if m in MUST and inr:
            ctx.event("must_tag_seen")
            boundary = boundary or t in (lo, hi)
            if ops2 != ("valid_addr",):
                ctx.disagreement(case, f"direct {m} at {ad} with target {tops[0]} inside [{lo_s},{hi_s}] is not tagged: operands {list(ops2)}")
                return
            (exp_call if m == "call" else exp_jmp).append(ad)
        elif m in MAY and inr:
            ctx.event("may_tag_tagged" if ops2 == ("valid_addr",) else "may_tag_untagged")
            if ops2 not in (("valid_addr",), ops):
                ctx.disagreement(case, f"operands of {m} at {ad} changed to {list(ops2)}")
                return
        else:
            ctx.event("must_not_tag_seen")
            if direct and m in MUST and t in (lo - 1, hi + 1):
                boundary = True
            if ops2 != ops:
                ctx.disagreement(case, f"{m} at {ad} (operands {list(ops)}) must not be rewritten by valid_addr_range [{lo_s},{hi_s}] but became {list(ops2)}")
                return
    ctx.case((text, lo_s, hi_s), boundary, stratum="boundary target" if boundary else "no boundary target")
    # rule-level: call: [valid_addr] / jmp: [valid_addr] with full-match flags so that only the exact mnemonic counts
    for name, want in (("call", exp_call), ("jmp", exp_jmp)):
        rt = real.dump_rule({"config": {"valid_addr_range": {"min": lo_s, "max": hi_s}, "mnemonics-full-match": True, "operands-full-match": True},
                             "pattern": [{name: ["valid_addr"]}]})
        r = real.match(ws.write("r.yaml", rt), lp, ret="list", search="all", only_addr=True, binary=binary, macros=macros)
        ctx.ran()
        if r[0] != "ok" or list(r[1]) != want:
            ctx.disagreement(case, f"rule {name}: [valid_addr] reports {str(r[1])[:200]}, expected the in-range direct {name}s {want}")
            return
        ctx.event("rule_address_sets_compared")
    if boundary:
        ctx.sample("boundary", {"min": lo_s, "max": hi_s, "tagged_calls": exp_call[:4], "tagged_jmps": exp_jmp[:4], "stream_with_option": r_with[1][:300]})


def binary_stratum(ctx, ws, n):
    """The same invariants on the BINARY route: an object assembled from templates with direct and indirect branches; the range is
    chosen around the targets objdump prints. With and without the option the object yields the same instructions."""
    from jv import asmgen
    import base64
    rng = ctx.rng
    for _ in range(n):
        bits = rng.choice([64, 64, 32])
        lines = []
        for _ in range(rng.choice([20, 60, 150])):
            r = rng.random()
            if r < 0.35:
                lines.append(rng.choice(["call", "jmp", "call", "jmp", "je", "jne"]) + f" L{rng.randrange(8)}")
            elif r < 0.45:
                lines.append(rng.choice(["call", "jmp"]) + " *" + rng.choice(asmgen.R64 if bits == 64 else asmgen.R32[:8]))
            elif r < 0.55:
                lines.append("push $0x" + format(rng.choice([0, 5, 0x20, 0x60, 0x100]), "x"))
            else:
                lines.append(asmgen.template(rng, bits))
        r = asmgen.assemble(ws, lines, bits)
        if r is None:
            ctx.inconc("as refused a template batch")
            continue
        targets = sorted({int(m.group(1), 16) for m in re.finditer(r"\t(?:call|jmp)\s+([0-9a-f]+) <", r[1])})
        if not targets:
            continue
        lo = rng.choice(targets)
        hi = rng.choice([t for t in targets if t >= lo])
        if rng.random() < 0.3:
            lo, hi = max(0, lo - 1), hi + 1
        judge(ctx, ws, None, lo, hi, spell(rng, lo), spell(rng, hi), text=r[1], binary_b64=base64.b64encode(open(r[0], "rb").read()).decode())


def run_shard(ctx):
    ws = real.Workspace()
    n = ctx.share(3000, 200000)
    for _ in range(n):
        insts, lo, hi = gen(ctx.rng)
        if ctx.rng.random() < 0.08 and hi > lo:
            lo, hi = hi, lo                   # bounds written the wrong way round: min <= T <= max holds for no T
            ctx.event("inverted_ranges_judged")
        judge(ctx, ws, insts, lo, hi, spell(ctx.rng, lo), spell(ctx.rng, hi), crlf=ctx.rng.random() < 0.12)
    binary_stratum(ctx, ws, ctx.share(48, 3000))


def replay(ctx, case):
    def val(s):
        return int(s[2:] if s.lower().startswith("0x") else s, 16)
    judge(ctx, real.Workspace(), None, val(case["min"]), val(case["max"]), case["min"], case["max"], text=case["listing"],
          crlf=bool(case.get("crlf")), binary_b64=case.get("binary_b64"), macro_lib=case.get("macro_lib"))
