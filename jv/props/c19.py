"""C19 - every @macro reference is expanded or reported, never silently kept."""
import itertools

from jv import real

LEVEL = "fault_enumeration"
RULE = ("Finite grid, fully enumerated in both tiers: reference position (instruction item, operand item, $deref field value, "
        "dict key with a times body, dict key with an operand-list body, item inside another macro's body, operand inside "
        "another macro's body, item inside an $or group, value of an argument of a parameterised macro call - all or only one of two formals bound, "
        "arguments beside or indented under the call key) x {referenced macro defined, undefined, defined under a name without "
        "'@'} x {definition listed before / after the macro that uses it} x {definitions in the rule file / in an extra macro "
        "file} x {0, 1, 2 unrelated other macros}; tiers differ in the number of randomised body/name variants per grid cell. "
        "Oracle: all references defined and bodies only using later-listed macros -> compiles and the regex contains no '@'; "
        "some reference undefined -> raises and the message names it; definition without '@' -> raises; otherwise (defined but "
        "listed earlier than its user, or a defined string macro used as a key with an operand list) -> expanded or reported, "
        "i.e. if it compiles the regex contains no '@'. History stratum: sequences of rules compiled in one process against one extra macro "
        "file whose macro refers to a macro the rule must supply (supplying rule -> clean, non-supplying rule -> reported, in every order). Non-trivial = every grid cell; distinct = (cell, variant).")
FLOOR = {"quick": 400, "thorough": 5000}
ANCHOR_HINTS = ["macro_expander", "yaml2regex"]
REQUIRED_EVENTS = ["cells_judged", "history_steps_judged", "many_undefined_cases"]
SHARDS = {"quick": 8, "thorough": 16}

POSITIONS = ["item", "operand", "deref_value", "key_times", "key_operands", "body_item", "body_operand", "or_item",
             "arg_sibling", "arg_nested", "arg_partial_sibling", "arg_partial_nested", "twice_in_operand", "twice_in_item", "call_key_last", "inside_operand", "inside_deref_value"]
DEFINED = ["defined", "undefined", "no_at_name"]
ORDER = ["user_first", "user_last"]
WHERE = ["file", "extra"]
OTHERS = [0, 1, 2]


def build(rng, pos, defined, order, where, nother):
    # ... and names that also occur as decorations of symbols in objdump output (puts@plt, x@got, memcpy@GLIBC_2.14): in a rule they are references
    ref = rng.choice(["@ref", "@r", "@any_x", "@zz9", "@scratch-reg", "@save-all.2", "@a-b", "@plt", "@got", "@gotpcrel", "@PLT", "@tpoff", "@GLIBC_2.14"])
    body_str = rng.choice(["mov", "push", "ov", "%rax", "rax", "0x10"])
    if pos in ("operand", "body_operand"):
        body_str = rng.choice(["%rax", "rax", "0x10", "%r8"])
    if pos == "deref_value":
        body_str = rng.choice(["%rax", "rbp", "0x8"])
    if defined == "no_at_name":
        # the definition AND its uses carry a name that does not START with '@': only the name check can object
        ref = rng.choice([ref[1:] + "_m", ref[1:] + "_m", " " + ref, "\t" + ref, "\u00a0" + ref, "x" + ref, "_" + ref])
    target = {"name": ref, "pattern": body_str}
    if rng.random() < 0.3 and pos not in ("key_times", "key_operands", "deref_value", "twice_in_operand", "twice_in_item", "inside_operand", "inside_deref_value"):
        target["pattern"] = [body_str]
    user = None
    if pos == "item":
        pattern = ["call", ref, "ret"]
    elif pos == "call_key_last":
        # a parameterised call whose argument key is written BEFORE the macro name (one mapping, another key order)
        target = {"name": ref, "args": ["reg"], "pattern": [{"push": ["reg"]}]}
        pattern = ["call", {"reg": "%rbx", ref: None}]
    elif pos == "inside_operand":
        # the reference stands INSIDE a longer name (as string macros are used: "%r@reg"), not at its start
        pattern = [{"mov": ["%rbx", rng.choice(["%r", "0x", "x"]) + ref]}]
    elif pos == "inside_deref_value":
        pattern = [{"mov": [{"$deref": {"main_reg": "r" + ref, "constant_offset": "0x8"}}, "%rax"]}]
    elif pos == "twice_in_operand":
        # the same string macro written twice in ONE scalar (as in "\\[@any\\+@any\\*8\\]"): every occurrence is a reference
        pattern = [{"mov": ["%rbx", ref + rng.choice(["", "\\+", ","]) + ref]}]
    elif pos == "twice_in_item":
        pattern = ["call", ref + ref]
    elif pos == "or_item":
        pattern = ["call", {"$or": ["nop", ref]}]
    elif pos == "operand":
        pattern = [{"mov": ["%rbx", ref]}]
    elif pos == "deref_value":
        pattern = [{"mov": [{"$deref": {"main_reg": ref, "constant_offset": "0x8"}}, "%rax"]}]
    elif pos == "key_times":
        pattern = ["call", {ref: {"times": 2}}]
    elif pos == "key_operands":
        pattern = [{ref: ["%rax", "%rbx"]}]
    elif pos.startswith("arg_"):
        # the reference is the VALUE of an argument of a parameterised macro call (all formals bound, or only one of two;
        # arguments written beside the call key or indented under it)
        body_str = rng.choice(["%rax", "rax", "0x10", "%r8"])
        target["pattern"] = body_str
        f1, f2 = rng.choice([("dst", "imm"), ("macro-arg1", "macro-arg2"), ("reg", "val")])
        user = {"name": "@user", "args": [f1, f2], "pattern": [{"mov": [f2, f1]}]}
        args = {f1: ref} if "partial" in pos else ({f1: ref, f2: "0x1"} if rng.random() < 0.5 else {f2: ref, f1: "%rbx"})
        call = {"@user": dict(args)} if pos.endswith("nested") else {"@user": None, **args}
        pattern = ["call", call]
    elif pos == "body_item":
        user = {"name": "@user", "pattern": [{"$or": ["nop", ref]}]}
        pattern = ["call", "@user"]
    else:
        user = {"name": "@user", "pattern": [{"mov": ["%rbx", ref]}]}
        pattern = ["call", "@user"]
    macros = []
    if defined != "undefined":
        macros.append(target)
    if user is not None:
        if order == "user_first":
            macros.insert(0, user)
        else:
            macros.append(user)
    others = [{"name": f"@other{i}", "pattern": rng.choice(["nop", ["hlt"], "%rcx"])} for i in range(nother)]
    for o in others:
        macros.insert(rng.randrange(len(macros) + 1), o)
        if rng.random() < 0.5:
            pattern = pattern + [o["name"]]
    return ref, pattern, macros, user


def expectation(pos, defined, order, user):
    if defined == "no_at_name":
        return "raise"
    if defined == "undefined":
        return "raise_naming"
    if pos == "key_operands":
        return "expanded_or_reported"
    if user is not None and order == "user_last":
        return "expanded_or_reported"      # the referenced macro is listed before its user
    return "compile_clean"


def judge(ctx, ws, cell, variant):
    pos, defined, order, where, nother = cell
    rng = ctx.rng
    ref, pattern, macros, user = build(rng, pos, defined, order, where, nother)
    files = None
    doc = {}
    if where == "extra" and macros:
        files = [ws.write("mx.yaml", real.dump_rule({"macros": macros}))]
    else:
        doc["macros"] = macros
    doc["pattern"] = pattern
    if not macros:
        # the property is about rules with at least one definition in play
        doc["macros"] = [{"name": "@unused", "pattern": "nop"}]
    text = real.dump_rule(doc)
    rp = ws.write("rule.yaml", text)
    r = real.compile_rule(rp, files)
    ctx.ran()
    exp = expectation(pos, defined, order, user)
    ctx.event("cells_judged")
    ctx.case((cell, variant), True, stratum=f"{pos}/{defined}", outcome=r[0])
    case = {"rule": text, "extra_macro_file": open(files[0]).read() if files else None, "cell": list(cell), "expect": exp, "ref": ref}
    if variant == 0:
        ctx.sample(f"{pos}/{defined}", {"rule": text, "extra": case["extra_macro_file"], "expect": exp, "outcome": list(r[:2])[:2]})
    survived = r[0] == "ok" and "@" in r[1]
    key = None
    if exp == "compile_clean":
        if r[0] != "ok":
            ctx.disagreement(case, f"all references are defined (uses listed before their definitions) but compilation raised {r[1]}: {r[2]}", key)
        elif survived:
            ctx.disagreement(case, f"compiled regex still contains '@': {r[1][:200]}", key)
    elif exp == "raise":
        if r[0] == "ok":
            ctx.disagreement(case, f"a macro whose name does not start with '@' was accepted; regex {r[1][:160]}", key)
    elif exp == "raise_naming":
        if r[0] == "ok":
            ctx.disagreement(case, f"undefined reference {ref} in position {pos} produced no error; regex {r[1][:200]}", key)
        elif ref not in r[2]:
            ctx.disagreement(case, f"undefined reference {ref}: error {r[1]}: {r[2]!r} does not name it", key)
    else:
        if survived:
            ctx.disagreement(case, f"reference {ref} (position {pos}, {order}) silently survived into the regex: {r[1][:200]}", key)


def history_stratum(ctx, ws, n):
    """Several rules compiled in ONE process against the same extra macro file: a library macro whose body refers to a macro the
    RULE has to supply. A rule that supplies it compiles clean; a rule that does not must be reported - also when it is compiled
    after one that did (nothing of an earlier expansion may stay in the library)."""
    rng = ctx.rng
    for _ in range(n):
        inner = rng.choice(["@inner", "@scratch", "@r1", "@any_reg"])
        lib = rng.choice(["@lib", "@save", "@l", "@zz_prologue"])
        body = rng.choice([[{"$and": ["push", inner]}], [{"mov": ["%rbx", inner]}], [{"$or": ["nop", inner]}], [{"$and": ["call", inner, "ret"]}],
                           [{inner: {"times": 2}}], [{"$and_any_order": [inner, "push"]}]])
        others = [{"name": "@other", "pattern": "nop"}] if rng.random() < 0.5 else []
        libfile = ws.write("lib.yaml", real.dump_rule({"macros": others + [{"name": lib, "pattern": body}]}))
        val = rng.choice(["%rax", "pop", "%r12"]) if isinstance(body[-1], dict) and "mov" in body[-1] else rng.choice(["pop", "leave", "inc"])
        A = real.dump_rule({"macros": [{"name": inner, "pattern": val}], "pattern": ["call", lib]})
        A2 = real.dump_rule({"macros": [{"name": inner, "pattern": "hlt" if val != "hlt" and not val.startswith("%") else "%rdx"}], "pattern": [lib, "ret"]})
        B = real.dump_rule({"macros": [{"name": "@unrelated", "pattern": "nop"}], "pattern": ["call", lib]})
        B0 = real.dump_rule({"pattern": ["call", lib]})
        seq = rng.choice([["A", "B"], ["A", "B0"], ["B", "A", "B"], ["A", "A2", "B"], ["A", "B", "A2", "B0"], ["A2", "A", "B0"]])
        texts = {"A": A, "A2": A2, "B": B, "B0": B0}
        for step, name in enumerate(seq):
            if rng.random() < 0.3:
                libfile = ws.write("lib.yaml", open(libfile).read())       # same path, rewritten with the same content
            r = real.compile_rule(ws.write(f"h_{name}.yaml", texts[name]), [libfile])
            ctx.ran()
            ctx.event("history_steps_judged")
            ctx.case(("history", tuple(seq), step, str(body), inner), True, stratum="history/" + name.rstrip("02"), outcome=r[0])
            case = {"history": [texts[x] for x in seq[:step + 1]], "extra_macro_file": open(libfile).read(), "ref": inner, "rule": texts[name],
                    "expect": "compile_clean" if name.startswith("A") else "raise_naming", "cell": ["history"]}
            if name.startswith("A"):
                if r[0] != "ok" or "@" in r[1]:
                    ctx.disagreement(case, f"step {step} ({name}) of {seq}: the rule defines {inner} for the library macro {lib} but got {str(r[:3])[:200]}")
                    break
            elif r[0] == "ok":
                ctx.disagreement(case, f"step {step} ({name}) of {seq}: {inner}, which the library macro {lib} needs, is defined nowhere for this rule, "
                                       f"yet it compiled: {r[1][:200]}")
                break
            elif inner not in r[2]:
                ctx.disagreement(case, f"step {step} ({name}) of {seq}: error {r[1]}: {r[2]!r} does not name {inner}")
                break


def many_undefined_stratum(ctx, ws, n):
    """Many undefined names at once (a rule written against a macro library that was not given): the error names every one of them,
    through Yaml2Regex and through MasterOfPuppets, however long the message gets."""
    rng = ctx.rng
    for _ in range(n):
        k = rng.choice([2, 5, 14, 30])
        names = ["@" + rng.choice(["load_const_", "zero_", "save_scratch_register_", "m", "prologue_for_leaf_functions_", "x"]) + str(i) + rng.choice(["", "_long" * rng.randint(1, 6)])
                 for i in range(k)]
        pattern = []
        for nm in names:
            pattern.append(rng.choice([nm, {"mov": ["%rax", nm]}, {"$or": ["nop", nm]}, {nm: {"times": 2}}]))
        doc = {"macros": [{"name": "@defined", "pattern": "ret"}], "pattern": pattern + ["@defined"]}
        rp = ws.write("many.yaml", real.dump_rule(doc))
        lp = ws.write("many.s", "  401000:\tc3                   \tret\n")
        r = real.compile_rule(rp, None, full_message=True)
        be = real.build_error(rp, lp)
        ctx.ran(2)
        ctx.event("many_undefined_cases")
        ctx.case(("many", tuple(names)), True, stratum=f"many undefined/{k}", outcome=r[0])
        case = {"rule": real.dump_rule(doc), "many": names, "cell": ["many"], "expect": "raise_naming_all", "ref": names[0], "extra_macro_file": None}
        for route, msg in (("Yaml2Regex", r[2] if r[0] == "exc" else None), ("MasterOfPuppets", be[1] if be else None)):
            if msg is None:
                ctx.disagreement(case, f"{k} undefined macro names and {route} raised nothing")
                break
            missing = [nm for nm in names if nm not in msg]
            if missing:
                ctx.disagreement(case, f"{k} undefined macro names: the error seen through {route} ({len(msg)} characters) does not name {missing[:4]} ({len(missing)} missing)")
                break


PLACEHOLDERS = [({"macros": [{"name": "@ph"}], "pattern": ["call", "@undefined"]}, "@undefined"), ({"macros": [{"name": "ph_no_at"}], "pattern": ["call"]}, None),
                ({"macros": [{"name": "@ph", "pattern": None}], "pattern": [{"mov": ["@undef2", "%rax"]}]}, "@undef2"),
                ({"macros": [{"name": "@ph", "pattern": None}], "pattern": ["call", "@ph"]}, None),
                ({"macros": [{"name": "@ph"}, {"name": "@ok", "pattern": "ret"}], "pattern": ["call", "@ok", "@undefined"]}, "@undefined"),
                ({"macros": [{"name": "@ph", "pattern": ""}], "pattern": ["call", "@undefined"]}, "@undefined"),
                ({"macros": [{"name": "@ph", "pattern": []}], "pattern": ["call", "@undefined"]}, "@undefined"),
                ({"macros": [{"name": "no_at", "pattern": None}], "pattern": ["call"]}, None)]


def placeholder_stratum(ctx, ws):
    """Macro entries without a body (placeholders kept in the file: no `pattern`, or an empty one) are definitions in play like any
    other: an undefined reference beside them is still reported by name, an entry whose name lacks '@' is still rejected, and a
    reference to the placeholder itself does not compile. Identical at every seed."""
    for doc, named in PLACEHOLDERS:
        text = real.dump_rule(doc)
        r = real.compile_rule(ws.write("ph.yaml", text), None)
        ctx.ran()
        ctx.event("placeholder_cells_judged")
        ctx.case(("placeholder", text), True, stratum="body-less macro entries", outcome=r[0])
        case = {"rule": text, "extra_macro_file": None, "cell": ["placeholder"], "expect": "raise", "ref": named, "placeholder": True}
        if r[0] == "ok":
            ctx.disagreement(case, f"a rule with a body-less macro entry and an undefined / ill-named / body-less reference compiled: {r[1][:200]}")
        elif named and named not in r[2]:
            ctx.disagreement(case, f"undefined reference {named} beside a body-less macro entry: error {r[1]}: {r[2]!r} does not name it")


def run_shard(ctx):
    ws = real.Workspace()
    if ctx.shard == 0:
        placeholder_stratum(ctx, ws)
    history_stratum(ctx, ws, ctx.share(64, 2000))
    many_undefined_stratum(ctx, ws, ctx.share(32, 1500))
    cells = list(itertools.product(POSITIONS, DEFINED, ORDER, WHERE, OTHERS))
    variants = 2 if ctx.tier == "quick" else 40
    jobs = [(c, v) for c in cells for v in range(variants)]
    for i, (c, v) in enumerate(jobs):
        if i % ctx.nshards == ctx.shard:
            judge(ctx, ws, c, v)


def replay(ctx, case):
    ws = real.Workspace()
    if case.get("many"):
        rp = ws.write("many.yaml", case["rule"])
        lp = ws.write("many.s", "  401000:\tc3                   \tret\n")
        r = real.compile_rule(rp, None, full_message=True)
        be = real.build_error(rp, lp)
        ctx.ran(2)
        for msg in (r[2] if r[0] == "exc" else None, be[1] if be else None):
            if msg is None or any(nm not in msg for nm in case["many"]):
                ctx.disagreement(case, "the error does not name every undefined macro")
                return
        return
    if case.get("history"):
        lib = ws.write("lib.yaml", case["extra_macro_file"])
        r = None
        for i, t in enumerate(case["history"]):
            r = real.compile_rule(ws.write(f"h{i}.yaml", t), [lib])
        ctx.ran(len(case["history"]))
        if (case["expect"] == "compile_clean" and (r[0] != "ok" or "@" in r[1])) or (case["expect"] == "raise_naming" and (r[0] == "ok" or case["ref"] not in r[2])):
            ctx.disagreement(case, f"last step of the history: expected {case['expect']}, got {str(r[:3])[:200]}")
        return
    files = [ws.write("mx.yaml", case["extra_macro_file"])] if case.get("extra_macro_file") else None
    r = real.compile_rule(ws.write("rule.yaml", case["rule"]), files)
    ctx.ran()
    exp, ref = case["expect"], case["ref"]
    survived = r[0] == "ok" and "@" in r[1]
    bad = ((exp == "compile_clean" and (r[0] != "ok" or survived)) or (exp == "raise" and r[0] == "ok")
           or (exp == "raise_naming" and (r[0] == "ok" or ref not in r[2])) or (exp == "expanded_or_reported" and survived))
    if bad:
        ctx.disagreement(case, f"expected {exp}, got {str(r[:2])[:200]}")
