"""C20 - the `jasm` command reports what the library computes."""
import os
import re
import subprocess

from jv import harness, listing as L, objd, real, refline, rulegen as RG
from jv.props import c14

LEVEL = "exploration"
RULE = ("`python -m jasm.main` is run in a scratch working directory for rule/input pairs (S-syn listings with rules derived "
        "from them - positives and one-step near misses - and harness-built ELF objects with rules derived from their "
        "disassembly) x {-s, -b} x {--all-matches} x {--return_only_address} x --macros with 0-3 files in varying order (one "
        "macro name defined differently in two files, so order decides; half of these rules also carry a config block: valid_addr_range on a listing, sections/style on an object). stderr is parsed by message ('Matched address: ...', "
        "'RESULT: Pattern found/not found'), timestamps ignored, and compared with the API result for the equivalent "
        "MatchConfig: RESULT found iff the API list is non-empty, one 'Matched address' line per API element, same order and "
        "text; exit status 0. Argument validation (no input, both -s and -b, no -p) and failing operations (missing file, "
        "malformed rule) must exit non-zero. Non-trivial = the API reports at least one match or the case is an argument / "
        "failure case; distinct = (rule, input, option set). Probes identical at every seed: every ordered selection of 1-3 of four macro files (one name "
        "defined differently in two files, one macro using a macro of another file) and a relocatable-object listing with repeated addresses and records "
        "in all four mode combinations; in 30 % of the comparisons the API is asked twice on one matcher object and the command must agree with the repeated answer.")
FLOOR = {"quick": 60, "thorough": 800}
ANCHOR_HINTS = ["main.py", "parse_arguments", "logging_config", "matched_observers"]
REQUIRED_EVENTS = ["cli_runs_compared", "macro_order_probes", "repeated_address_probes", "stream_input_probes"]

MATCHED = re.compile(r" - INFO - Matched address: (.*)$")


def run_cli(ws, args, cwd, path=None, stdin_text=None):
    env = harness.child_env()
    if path is not None:
        env["PATH"] = path
    try:
        return subprocess.run([harness.PY, "-m", "jasm.main"] + args, cwd=cwd, env=env, capture_output=True, text=True, timeout=180, input=stdin_text)
    except subprocess.TimeoutExpired:
        return None


def stream_input_probe(ctx, ws, cwd, rule_path, listing_text, all_matches):
    """The listing arrives through something that is not a regular file: `objdump -d x | jasm -s /dev/stdin` and a named pipe given
    to the API. Both report what the same text in a regular file reports."""
    import threading
    lp = ws.write("stream_ref.s", listing_text)
    search = "all" if all_matches else "first"
    ref = real.match(rule_path, lp, ret="list", search=search, only_addr=True)
    args = ["-p", rule_path, "-s", "/dev/stdin", "--return_only_address"] + (["--all-matches"] if all_matches else [])
    p = run_cli(ws, args, cwd, stdin_text=listing_text)
    fifo = ws.path("listing.fifo")
    if os.path.exists(fifo):
        os.remove(fifo)
    os.mkfifo(fifo)

    def feed():
        with open(fifo, "w") as f:
            f.write(listing_text)
    t = threading.Thread(target=feed, daemon=True)
    t.start()
    api = real.match(rule_path, fifo, ret="list", search=search, only_addr=True)
    t.join(timeout=10)
    ctx.ran(3)
    ctx.event("stream_input_probes")
    ctx.case(("stream-input", open(rule_path).read(), all_matches), True, stratum="input through a pipe")
    case = {"argv": args, "rule": open(rule_path).read(), "input_text": listing_text, "macro_files": [], "input_b64": None, "stream_input": True}
    if ref[0] != "ok":
        return
    if api[0] != "ok" or list(api[1]) != list(ref[1]):
        ctx.disagreement(case, f"the API reading the listing from a named pipe returns {str(api[1:2])[:120]}, from a regular file {str(ref[1])[:120]}")
        return
    if p is None or p.returncode != 0:
        ctx.disagreement(case, f"`jasm -s /dev/stdin` fed by a pipe exits {None if p is None else p.returncode}: {'' if p is None else p.stderr[-300:]!r}")
        return
    addrs, result = parse_stderr(p.stderr)
    if result != bool(ref[1]) or addrs != list(ref[1]):
        ctx.disagreement(case, f"`jasm -s /dev/stdin` fed by a pipe logs RESULT {result} and addresses {addrs[:5]}; the same text in a file gives {list(ref[1])[:5]}")


def run_cli_on_terminal(args, cwd, columns=80, rows=24):
    """The command with its standard error attached to a pseudo terminal of the given size (what a user at a shell prompt sees).
    Returns (exit status, text) or None."""
    import fcntl
    import pty
    import struct
    import termios
    try:
        master, slave = pty.openpty()
    except OSError:
        return None           # no pseudo terminals in this sandbox: the probe is inconclusive, not a verdict
    try:
        fcntl.ioctl(slave, termios.TIOCSWINSZ, struct.pack("HHHH", rows, columns, 0, 0))
        p = subprocess.Popen([harness.PY, "-m", "jasm.main"] + args, cwd=cwd, env=harness.child_env(), stdin=subprocess.DEVNULL, stdout=slave, stderr=slave, close_fds=True)
        os.close(slave)
        slave = None
        chunks = []
        while True:
            try:
                b = os.read(master, 65536)
            except OSError:
                break
            if not b:
                break
            chunks.append(b)
        try:
            rc = p.wait(timeout=180)
        except subprocess.TimeoutExpired:
            p.kill()
            return None
        return rc, b"".join(chunks).decode("utf-8", "replace").replace("\r\n", "\n")
    finally:
        if slave is not None:
            os.close(slave)
        os.close(master)


def terminal_probe(ctx, ws, cwd):
    """The command run at an interactive terminal (80 and 200 columns) logs the same `Matched address` lines - whole, one per element
    of the API's list - and the same RESULT line as when its output is captured through a pipe."""
    rows = "".join(f"  ffffffff8100{j:04x}:\t90                   \tnop\n" for j in range(12)) + "  ffffffff8100000c:\tc3                   \tret\n"
    lp = ws.write("tty.s", rows)
    for pat, only_addr in ((["nop"], True), (["nop", "nop", "nop"], False), ([{"nop": {"times": 12}}, "ret"], False), (["zzz"], True)):
        rp = ws.write("tty_rule.yaml", real.dump_rule({"pattern": pat}))
        api = real.match(rp, lp, ret="list", search="all", only_addr=only_addr)
        for columns in (80, 200):
            args = ["-p", rp, "-s", lp, "--all-matches"] + (["--return_only_address"] if only_addr else [])
            out = run_cli_on_terminal(args, cwd, columns=columns)
            ctx.ran(2)
            ctx.event("runs_on_a_pseudo_terminal")
            ctx.case(("tty", str(pat), only_addr, columns), True, stratum="command run on a terminal")
            case = {"argv": args, "rule": open(rp).read(), "input_text": rows, "macro_files": [], "input_b64": None, "terminal_columns": columns}
            if out is None or api[0] != "ok":
                ctx.inconc("terminal run did not finish")
                continue
            addrs, result = parse_stderr(out[1])
            if out[0] != 0 or result != bool(api[1]) or addrs != list(api[1]):
                ctx.disagreement(case, f"`jasm` on a {columns}-column terminal exits {out[0]}, logs RESULT {result} and {len(addrs)} Matched address lines {[a[:40] for a in addrs[:3]]}; "
                                       f"the API returns {len(api[1])} elements {[a[:40] for a in list(api[1])[:3]]}")


def parse_stderr(err: str):
    addrs, result = [], None
    for line in err.split("\n"):
        m = MATCHED.search(line)
        if m:
            addrs.append(m.group(1))
        if "RESULT: Pattern found" in line:
            result = True
        elif "RESULT: Pattern not found" in line:
            result = False
    return addrs, result


LOG_OPTIONS = ["--debug", "--info", "--enable_logging_to_file", "--enable_logging_to_terminal"]


def compare(ctx, ws, cwd, rule_path, inp, binary, all_matches, only_addr, macros, label, log_options=()):
    args = ["-p", rule_path, "-b" if binary else "-s", inp]
    if all_matches:
        args.append("--all-matches")
    if only_addr:
        args.append("--return_only_address")
    args += list(log_options)          # logging options change what is written besides the result, never the result
    if log_options:
        ctx.event("cli_runs_with_logging_options")
    if macros:
        args += ["--macros"] + macros
    api = real.match(rule_path, inp, binary=binary, ret="list", search="all" if all_matches else "first", only_addr=only_addr, macros=macros)
    if api[0] == "ok" and ctx.rng.random() < 0.3:
        # "the library API" also when one matcher object is asked again: it still reports what the command reports
        tw = real.match_twice(rule_path, inp, binary=binary, ret="list", search="all" if all_matches else "first", only_addr=only_addr, macros=macros)
        ctx.ran(2)
        ctx.event("api_asked_twice_on_one_object")
        if tw[0] != "ok" or list(tw[1]) != list(api[1]) or list(tw[2]) != list(api[1]):
            api = ("ok", list(tw[2]) if tw[0] == "ok" else [], api[2])        # judge the command against the repeated answer: they must still agree
    p = run_cli(ws, args, cwd)
    ctx.ran(2)
    if p is None:
        ctx.inconc("CLI run timed out")
        return
    case = {"argv": args, "rule": open(rule_path).read() if os.path.isfile(rule_path) else None,
            "macro_files": [open(m).read() for m in (macros or []) if os.path.isfile(m)],
            "input_text": open(inp, newline="").read()[:20000] if (not binary and os.path.isfile(inp)) else None,
            "input_b64": __import__("base64").b64encode(open(inp, "rb").read()).decode() if (binary and os.path.isfile(inp)) else None}
    ctx.event("cli_runs_compared")
    nontrivial = api[0] == "exc" or bool(api[1])
    ctx.case((case["rule"], case["input_text"] or case["input_b64"], tuple(args[4:])), nontrivial,
             stratum=label + ("/bin" if binary else "/asm") + ("/all" if all_matches else "/first") + ("/addr" if only_addr else "/text"),
             outcome="api-exc" if api[0] == "exc" else "found" if api[1] else "not found")
    if api[0] == "exc":
        if p.returncode == 0:
            ctx.disagreement(case, f"the API raises {api[1]} for this operation but `jasm` exits 0 (stderr tail: {p.stderr[-300:]!r})")
        else:
            ctx.event("failing_operation_exits_nonzero")
        return
    addrs, result = parse_stderr(p.stderr)
    if p.returncode != 0:
        ctx.disagreement(case, f"the API returns {str(api[1])[:120]} but `jasm` exits {p.returncode}: {p.stderr[-400:]!r}")
        return
    if result is None:
        ctx.disagreement(case, f"`jasm` exited 0 without a RESULT line; stderr tail {p.stderr[-300:]!r}")
        return
    if result != bool(api[1]):
        ctx.disagreement(case, f"`jasm` logs RESULT found={result}, API list is {str(api[1])[:160]}")
        return
    if addrs != list(api[1]):
        ctx.disagreement(case, f"`jasm` logs Matched address lines {[a[:40] for a in addrs[:5]]} ({len(addrs)}), API returns {[a[:40] for a in api[1][:5]]} ({len(api[1])})")
        return
    if api[1]:
        ctx.sample(label, {"argv": args[4:], "rule": case["rule"], "matched": addrs[:3], "result": result})


def arg_cases(ctx, ws, cwd, rule_path, asm, elfp):
    table = [
        ("no-input", ["-p", rule_path]),
        ("both-inputs", ["-p", rule_path, "-s", asm, "-b", elfp]),
        ("no-pattern", ["-s", asm]),
        ("nothing", []),
        ("unknown-option", ["-p", rule_path, "-s", asm, "--frobnicate"]),
        ("missing-rule-file", ["-p", ws.path("nope.yaml"), "-s", asm]),
        ("missing-input-file", ["-p", rule_path, "-s", ws.path("nope.s")]),
        ("missing-binary", ["-p", rule_path, "-b", ws.path("nope.bin")]),
        ("missing-macro-file", ["-p", rule_path, "-s", asm, "--macros", ws.path("nope_m.yaml")]),
        ("malformed-rule", ["-p", ws.write("bad.yaml", "pattern: [unclosed\n"), "-s", asm]),
        ("not-an-object", ["-p", rule_path, "-b", asm]),
    ]
    empty = ws.path("emptybin")
    os.makedirs(empty, exist_ok=True)
    fake = ws.path("fakebin")
    os.makedirs(fake, exist_ok=True)
    with open(os.path.join(fake, "objdump"), "w") as f:
        f.write("#!/bin/sh\necho 'objdump: file format not recognized' >&2\nexit 1\n")
    os.chmod(os.path.join(fake, "objdump"), 0o755)
    table += [("objdump-not-on-PATH", ["-p", rule_path, "-b", elfp], empty),
              ("objdump-exits-1", ["-p", rule_path, "-b", elfp], fake + os.pathsep + "/usr/bin:/bin")]
    for entry in table:
        name, args = entry[0], entry[1]
        p = run_cli(ws, args, cwd, path=entry[2] if len(entry) > 2 else None)
        ctx.ran()
        if p is None:
            ctx.inconc("CLI run timed out")
            continue
        ctx.event("argument_or_failure_cases")
        ctx.case(("arg", name), True, stratum="arguments/failures", outcome=f"exit {p.returncode}")
        if p.returncode == 0:
            ctx.disagreement({"argv": args, "case": name, "stderr_tail": p.stderr[-400:]}, f"`jasm` exits 0 for the invalid invocation / failing operation '{name}'")
        elif name == "no-input":
            ctx.sample("arguments", {"case": name, "exit": p.returncode, "stderr_tail": p.stderr[-160:]})


RELOC = """
u.o:     file format elf64-x86-64


Disassembly of section .text.f:

0000000000000000 <f>:
   0:\t55                   \tpush   %rbp
   1:\t48 89 e5             \tmov    %rsp,%rbp
   4:\tc3                   \tret

Disassembly of section .text.g:

0000000000000000 <g>:
   0:\t55                   \tpush   %rbp
   1:\t48 89 e5             \tmov    %rsp,%rbp
   4:\t90                   \tnop
   5:\tc3                   \tret

Disassembly of section .text.h:

0000000000000000 <h>:
   0:\t55                   \tpush   %rbp
   1:\t48 89 e5             \tmov    %rsp,%rbp
   4:\tc3                   \tret
"""


def probe_cases(ctx, ws, cwd, asm0, which, part=0, nparts=1):
    """The same probes at every seed: (0) every ordered selection of the macro files (one name defined differently in two files, one
    macro using a macro of another file), (1) a relocatable-object listing in which addresses and whole records repeat, in all four
    mode combinations, with and without logging options."""
    import itertools
    if which == 0:
        files = {"ma": ws.write("p_ma.yaml", real.dump_rule({"macros": [{"name": "@m", "pattern": "push"}, {"name": "@k", "pattern": "call"}]})),
                 "mb": ws.write("p_mb.yaml", real.dump_rule({"macros": [{"name": "@m", "pattern": "zzz"}]})),
                 "zz_first": ws.write("p_zz_first.yaml", real.dump_rule({"macros": [{"name": "@two", "pattern": [{"$and": ["@k", "push"]}]}]})),
                 "mc": ws.write("p_mc.yaml", real.dump_rule({"macros": [{"name": "@unused", "pattern": "hlt"}]}))}
        combos = [c for r in (1, 2, 3) for c in itertools.permutations(sorted(files), r)]
        # one file named twice: macros are applied once each, in list order, so the second mention is what expands a name an earlier file brought in
        combos += [("ma", "zz_first", "ma"), ("zz_first", "ma", "zz_first"), ("ma", "ma"), ("mb", "ma", "mb")]
        for ci, combo in enumerate(combos):
            if ci % nparts != part:
                continue
            if True:
                macros = [files[x] for x in combo]
                pats = [["push"]]
                if "ma" in combo or "mb" in combo:
                    pats.append(["@m", "@m"])
                if "zz_first" in combo and "ma" in combo:
                    pats.append(["@two"])
                for pat in pats:
                    rp = ws.write("probe_rule.yaml", real.dump_rule({"pattern": pat}))
                    compare(ctx, ws, cwd, rp, asm0, False, True, True, macros, "probe-macro-order")
                    ctx.event("macro_order_probes")
    else:
        # file names beginning with '@' (JASM's own macro sigil) or containing blanks, given as relative paths from the working directory
        here = os.getcwd()
        os.chdir(cwd)
        try:
            for nm, text in (("@frame.yaml", real.dump_rule({"macros": [{"name": "@fr", "pattern": "push"}]})), ("@rule.yaml", real.dump_rule({"pattern": ["@fr", "mov"]})),
                             ("@in.s", RELOC), ("my rule.yaml", real.dump_rule({"pattern": ["push", "mov"]})), ("in put.s", RELOC),
                             # hidden files and editor backups are files like any other when they are named on the command line
                             (".jasm_macros.yaml", real.dump_rule({"macros": [{"name": "@fr", "pattern": "push"}]})), ("frame.yaml~", real.dump_rule({"macros": [{"name": "@fr", "pattern": "push"}]})),
                             (".rule.yaml", real.dump_rule({"pattern": ["push", "mov"]})), (".in.s", RELOC)):
                with open(os.path.join(cwd, nm), "w") as f:
                    f.write(text)
            # a path that goes through a symlinked directory and then "..": the file the operating system reaches, not the lexical one
            os.makedirs(os.path.join(cwd, "releases", "v2"), exist_ok=True)
            if not os.path.islink(os.path.join(cwd, "current")):
                os.symlink(os.path.join("releases", "v2"), os.path.join(cwd, "current"))
            with open(os.path.join(cwd, "releases", "listing.s"), "w") as f:
                f.write(RELOC)
            with open(os.path.join(cwd, "listing.s"), "w") as f:
                f.write("  401000:\tc3                   \tret\n")
            with open(os.path.join(cwd, "releases", "rule.yaml"), "w") as f:
                f.write(real.dump_rule({"pattern": ["push", "mov"]}))
            with open(os.path.join(cwd, "rule.yaml"), "w") as f:
                f.write(real.dump_rule({"pattern": ["zzz"]}))
            for rule, inp, macros in (("@rule.yaml", "@in.s", ["@frame.yaml"]), ("my rule.yaml", "in put.s", None), ("@rule.yaml", "in put.s", ["./@frame.yaml"]),
                                      ("my rule.yaml", "@in.s", ["@frame.yaml"]), ("@rule.yaml", "@in.s", [".jasm_macros.yaml"]), ("@rule.yaml", "in put.s", ["frame.yaml~"]),
                                      ("@rule.yaml", ".in.s", ["./.jasm_macros.yaml"]), (".rule.yaml", ".in.s", None), ("my rule.yaml", "current/../listing.s", None), ("current/../rule.yaml", "in put.s", None),
                                      ("current/../rule.yaml", "current/../listing.s", None)):
                for am in (False, True):
                    compare(ctx, ws, cwd, rule, inp, False, am, True, macros, "probe-file-names")
                    ctx.event("file_name_probes")
        finally:
            os.chdir(here)
        # one match whose text is longer than 64 KiB (a NOP sled): the command logs the whole element the API returns
        sled = "".join(f"  {0x401000 + j:x}:\t90                   \tnop\n" for j in range(6000)) + f"  {0x401000 + 6000:x}:\tc3                   \tret\n"
        lps = ws.write("sled.s", sled)
        rps = ws.write("sled.yaml", real.dump_rule({"pattern": [{"nop": {"times": {"min": 1, "max": 7000}}}, "ret"]}))
        for am in (False, True):
            compare(ctx, ws, cwd, rps, lps, False, am, False, None, "probe-long-match")
            ctx.event("long_match_probes")
        lp = ws.write("reloc.s", RELOC)
        for pat in (["push", "mov"], ["zzz"]):
            rp = ws.write("probe_rule_s.yaml", real.dump_rule({"pattern": pat}))
            for am in (False, True):
                stream_input_probe(ctx, ws, cwd, rp, RELOC, am)
        # ... and rules every element of which is optional (they also match the empty sequence: the command and the API still agree)
        for pat in (["push", "mov"], [{"push": ["%rbp"]}], ["ret"], ["mov", "ret"], [{"zzz": {"times": {"min": 0, "max": 2}}}], [{"nop": {"times": {"min": 0, "max": 1}}}],
                    [{"$or": ["zzz", "yyy"], "times": {"min": 0, "max": 1}}]):
            rp = ws.write("probe_rule.yaml", real.dump_rule({"pattern": pat}))
            for am in (False, True):
                for oa in (False, True):
                    compare(ctx, ws, cwd, rp, lp, False, am, oa, None, "probe-repeated-addresses", ("--debug",) if (am and oa) else ())
                    ctx.event("repeated_address_probes")


def run_shard(ctx):
    ws = real.Workspace()
    rng = ctx.rng
    cwd = ws.path("cwd")
    os.makedirs(cwd, exist_ok=True)
    elfp = ws.write("obj.bin", c14.the_elf())
    asm0 = ws.write("near.s", c14.NEAR)
    if ctx.shard == 0:
        arg_cases(ctx, ws, cwd, ws.write("ok.yaml", "pattern:\n  - push\n"), asm0, elfp)
    if ctx.shard == 1 % ctx.nshards:
        probe_cases(ctx, ws, cwd, asm0, 1)
        terminal_probe(ctx, ws, cwd)
    parts = max(1, min(8, ctx.nshards - 2))
    if 2 <= ctx.shard < 2 + parts or ctx.nshards <= 2:
        probe_cases(ctx, ws, cwd, asm0, 0, (ctx.shard - 2) % parts, parts if ctx.nshards > 2 else 1)
    n = ctx.share(230, 8000)
    done = 0
    while done < n:
        r = rng.random()
        macros = None
        if r < 0.55:
            insts = L.gen_listing(rng, rng.choice([6, 12, 25]))
            inp = ws.write("l.s", L.render(insts, rng))
            binary = False
            gen = RG.RuleGen(rng, insts, RG.Feat(operands=0.6, groups=0.3, nots=0.1, times_item=0.15, ocaps=0.2, icaps=0.1, ogroups=0.15, deref=0.3,
                                                 max_depth=1, max_spine=rng.choice([1, 2, 3])))
            pattern = gen.rule()
            if not pattern or RG.pattern_cost(pattern) > 200:
                continue
            if rng.random() < 0.3:
                m = RG.mutate_rule(rng, pattern)
                pattern = m[0] if m else pattern
            label = "syn"
        elif r < 0.8:
            blob, secs, bits = objd.random_object(rng, size=(40, 200))
            inp = ws.write("o.bin", blob)
            binary = True
            rc, out, _ = objd.disassemble(inp)
            rin = [ri for ri in refline.read_listing(out)[0] if ri.parsed.mnemonic.isalnum()] if rc == 0 else []
            if not rin:
                continue
            k = rng.randrange(len(rin))
            pattern = [ri.parsed.mnemonic for ri in rin[k:k + rng.randint(1, 2)]]
            label = "elf"
        else:
            # macro files in varying order: @m is defined differently in two files, so order decides
            inp, binary = asm0, rng.random() < 0.0
            files = [ws.write("ma.yaml", real.dump_rule({"macros": [{"name": "@m", "pattern": "push"}, {"name": "@k", "pattern": "call"}]})),
                     ws.write("mb.yaml", real.dump_rule({"macros": [{"name": "@m", "pattern": "zzz"}]})),
                     ws.write("mc.yaml", real.dump_rule({"macros": [{"name": "@unused", "pattern": "hlt"}]}))]
            macros = rng.sample(files, rng.randint(1, 3))
            pattern = rng.choice([["@m", "@m"], ["call", "@m"], ["push"], ["movq", "@k"] if files[0] in macros else ["movq"]])
            if any(isinstance(x, str) and x.startswith("@m") for x in pattern) and not (set(macros) & set(files[:2])):
                macros.append(files[rng.randrange(2)])
            label = "macros"
        doc = {"pattern": pattern}
        if label == "macros" and rng.random() < 0.5:
            # a rule that also carries a config block: the command must match under the rule's config whatever else it loads
            label = "macros+config"
            if rng.random() < 0.5:
                lo_, hi_ = rng.choice([("0x401000", "0x401fff"), ("0x500000", "0x5fffff"), ("401005", "401005")])
                doc = {"config": {"valid_addr_range": {"min": lo_, "max": hi_}}, "pattern": rng.choice([[{"call": ["valid_addr"]}], [{"call": ["401005"]}], ["@k"] if files[0] in macros else ["push"]])}
            else:
                inp, binary = elfp, True
                cfgb = {"sections": rng.choice([[".init"], [".text"], [".init", ".text"]])}
                if rng.random() < 0.5:
                    cfgb["style"] = "att"
                doc = {"config": cfgb, "pattern": rng.choice([["hlt"], ["push"], ["ret"], ["leave", "ret"], ["@k"] if files[0] in macros else ["nop"]])}
        elif rng.random() < 0.25:
            doc = {"config": {"mnemonics-full-match": rng.random() < 0.5, "operands-full-match": rng.random() < 0.5}, "pattern": pattern}
        rp = ws.write("rule.yaml", real.dump_rule(doc))
        if not binary and rng.random() < 0.1:
            inp = ws.write("crlf.s", open(inp).read().replace("\n", "\r\n").encode())
        lo = tuple(o for o in LOG_OPTIONS if rng.random() < 0.2)
        compare(ctx, ws, cwd, rp, inp, binary, rng.random() < 0.5, rng.random() < 0.5, macros, label, lo)
        done += 1


def replay(ctx, case):
    ws = real.Workspace()
    cwd = ws.path("cwd")
    os.makedirs(cwd, exist_ok=True)
    if case.get("stream_input"):
        rp = ws.write("rule.yaml", case["rule"])
        return stream_input_probe(ctx, ws, cwd, rp, case["input_text"], "--all-matches" in case["argv"])
    if case.get("terminal_columns"):
        rp, lp = ws.write("tty_rule.yaml", case["rule"]), ws.write("tty.s", case["input_text"])
        oa = "--return_only_address" in case["argv"]
        api = real.match(rp, lp, ret="list", search="all", only_addr=oa)
        out = run_cli_on_terminal(["-p", rp, "-s", lp, "--all-matches"] + (["--return_only_address"] if oa else []), cwd, columns=case["terminal_columns"])
        ctx.ran(2)
        if out is None or api[0] != "ok":
            return ctx.inconc("terminal run did not finish")
        addrs, result = parse_stderr(out[1])
        if out[0] != 0 or result != bool(api[1]) or addrs != list(api[1]):
            ctx.disagreement(case, f"`jasm` on a {case['terminal_columns']}-column terminal logs {len(addrs)} Matched address lines {[a[:40] for a in addrs[:3]]}; the API returns {[a[:40] for a in list(api[1])[:3]]}")
        return
    if not case.get("rule"):
        p = run_cli(ws, case["argv"], cwd)
        if p is not None and p.returncode == 0:
            ctx.disagreement(case, "invalid invocation exits 0")
        return
    rp = ws.write("rule.yaml", case["rule"])
    binary = case.get("input_b64") is not None
    inp = ws.write("in.bin", __import__("base64").b64decode(case["input_b64"])) if binary else ws.write("in.s", case["input_text"].encode())
    macros = [ws.write(f"m{i}.yaml", t) for i, t in enumerate(case.get("macro_files") or [])] or None
    a = case["argv"]
    compare(ctx, ws, cwd, rp, inp, binary, "--all-matches" in a, "--return_only_address" in a, macros, "replay", tuple(o for o in LOG_OPTIONS if o in a))
