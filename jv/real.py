"""Boundary to the real JASM code: every call here executes the working tree
under $JASM_REPO/src through its public entry points."""
from __future__ import annotations

import atexit
import os
import shutil
import sys
import tempfile
from typing import Any, List, Optional

JASM_REPO = os.environ.get("JASM_REPO", "/repo")
SRC = os.path.join(JASM_REPO, "src")
if SRC not in sys.path:
    sys.path.insert(0, SRC)

import yaml  # noqa: E402


def _import():
    import jasm  # noqa
    from jasm import global_definitions as gd
    from jasm import match as jm
    from jasm.jasm_regex import yaml2regex as y2r
    here = os.path.realpath(os.path.dirname(jasm.__file__))
    want = os.path.realpath(os.path.join(SRC, "jasm"))
    if here != want:
        raise RuntimeError(f"jasm imported from {here}, expected {want}")
    return gd, jm, y2r


gd, jm, y2r = _import()


class Workspace:
    """Scratch directory for rule/listing files; removed at exit."""

    def __init__(self) -> None:
        base = os.environ.get("JV_WS_BASE") or ("/dev/shm" if os.path.isdir("/dev/shm") and os.access("/dev/shm", os.W_OK) else None)
        self.dir = tempfile.mkdtemp(prefix="jv_", dir=base)
        atexit.register(self.close)
        self._n = 0

    def close(self) -> None:
        shutil.rmtree(self.dir, ignore_errors=True)

    def path(self, name: str) -> str:
        return os.path.join(self.dir, name)

    def write(self, name: str, data) -> str:
        p = self.path(name)
        mode = "wb" if isinstance(data, (bytes, bytearray)) else "w"
        with open(p, mode) as f:
            f.write(data)
        return p

    def fresh(self, suffix: str) -> str:
        self._n += 1
        return f"f{self._n}{suffix}"


_SINK = None


LOGGER_AVAILABLE = None


def set_log_level(name: str) -> None:
    """Ambient state of a run: the level `--debug` / `--info` give jasm's logger (records are formatted by a sink handler and
    dropped; no log files are written). "warning" is the library default. If the repository no longer has a module-level logger
    object this is a no-op (the ambient axis is then simply not exercised; LOGGER_AVAILABLE tells)."""
    global _SINK, LOGGER_AVAILABLE
    import logging
    try:
        from jasm import logging_config as lc
        lg = lc.logger
        if not isinstance(lg, logging.Logger):
            raise AttributeError("logger")
    except Exception:  # noqa: BLE001
        LOGGER_AVAILABLE = False
        return
    LOGGER_AVAILABLE = True
    if _SINK is None:
        class Sink(logging.Handler):
            def emit(self, record):
                record.getMessage()
        _SINK = Sink(level=logging.DEBUG)
        lg.addHandler(_SINK)
        lg.propagate = False
    lg.setLevel({"debug": logging.DEBUG, "info": logging.INFO, "warning": logging.WARNING}[name])


class log_level:
    """with real.log_level("debug"): ...  - ambient logger level for the duration of a block."""

    def __init__(self, name: str):
        self.name = name

    def __enter__(self):
        set_log_level(self.name)
        return self

    def __exit__(self, *a):
        set_log_level("warning")
        return False


def dump_rule(doc: Any) -> str:
    return yaml.safe_dump(doc, sort_keys=False, default_flow_style=False, width=10000)


RETURN = {"bool": "bool", "list": "matched_addrs_list", "stream": "all_instructions_string"}
SEARCH = {"first": "first_find", "all": "all_finds"}


def match(
    rule_path: str,
    input_path: str,
    *,
    binary: bool = False,
    ret: str = "bool",
    search: str = "first",
    only_addr: bool = False,
    macros: Optional[List[str]] = None,
):
    """One complete compile-and-match through the public API.
    Returns ("ok", value, regex) or ("exc", type_name, message)."""
    try:
        cfg = gd.MatchConfig(
            pattern_pathstr=rule_path,
            input_file=input_path,
            input_file_type=gd.InputFileType.binary if binary else gd.InputFileType.assembly,
            return_only_address=only_addr,
            return_mode=getattr(gd.MatchingReturnMode, RETURN[ret]),
            matching_mode=getattr(gd.MatchingSearchMode, SEARCH[search]),
            macros=macros,
        )
        mop = jm.MasterOfPuppets(cfg)
        value = mop.perform_matching()
        return ("ok", value, mop.regex_rule)
    except BaseException as exc:  # noqa: BLE001 - the outcome class is what is judged
        if isinstance(exc, (KeyboardInterrupt, SystemExit)):
            raise
        return ("exc", type(exc).__name__, str(exc)[:300])


def match_twice(rule_path: str, input_path: str, *, binary=False, ret="list", search="all", only_addr=False, macros=None):
    """perform_matching() called twice on the SAME MasterOfPuppets object. Returns ("ok", first, second) or ("exc", ...)."""
    try:
        cfg = gd.MatchConfig(
            pattern_pathstr=rule_path, input_file=input_path,
            input_file_type=gd.InputFileType.binary if binary else gd.InputFileType.assembly,
            return_only_address=only_addr, return_mode=getattr(gd.MatchingReturnMode, RETURN[ret]),
            matching_mode=getattr(gd.MatchingSearchMode, SEARCH[search]), macros=macros)
        mop = jm.MasterOfPuppets(cfg)
        first = mop.perform_matching()
        first = list(first) if isinstance(first, list) else first
        second = mop.perform_matching()
        return ("ok", first, second)
    except BaseException as exc:  # noqa: BLE001
        if isinstance(exc, (KeyboardInterrupt, SystemExit, MemoryError)):
            raise
        return ("exc", type(exc).__name__, str(exc)[:300])


def build(rule_path: str, input_path: str, *, binary=False, ret="bool", search="first", only_addr=False, macros=None):
    """Construct a matcher without running it. Returns ("ok", mop) or ("exc", ...)."""
    try:
        cfg = gd.MatchConfig(
            pattern_pathstr=rule_path, input_file=input_path,
            input_file_type=gd.InputFileType.binary if binary else gd.InputFileType.assembly,
            return_only_address=only_addr, return_mode=getattr(gd.MatchingReturnMode, RETURN[ret]),
            matching_mode=getattr(gd.MatchingSearchMode, SEARCH[search]), macros=macros)
        return ("ok", jm.MasterOfPuppets(cfg))
    except BaseException as exc:  # noqa: BLE001
        if isinstance(exc, (KeyboardInterrupt, SystemExit, MemoryError)):
            raise
        return ("exc", type(exc).__name__, str(exc)[:300])


def run(built):
    """perform_matching() on a matcher made by build(). Same result shape as match()."""
    if built[0] != "ok":
        return built
    try:
        mop = built[1]
        v = mop.perform_matching()
        return ("ok", list(v) if isinstance(v, list) else v, mop.regex_rule)
    except BaseException as exc:  # noqa: BLE001
        if isinstance(exc, (KeyboardInterrupt, SystemExit, MemoryError)):
            raise
        return ("exc", type(exc).__name__, str(exc)[:300])


def match_flip(rule_path: str, input_path: str, combos, *, binary=False, macros=None):
    """ONE MasterOfPuppets object asked under several (ret, search, only_addr) combinations in turn by re-setting the attributes of its
    match_config between the calls. Returns ("ok", [value per combo]) or ("exc", ...)."""
    try:
        ret0, search0, oa0 = combos[0]
        cfg = gd.MatchConfig(
            pattern_pathstr=rule_path, input_file=input_path,
            input_file_type=gd.InputFileType.binary if binary else gd.InputFileType.assembly,
            return_only_address=oa0, return_mode=getattr(gd.MatchingReturnMode, RETURN[ret0]),
            matching_mode=getattr(gd.MatchingSearchMode, SEARCH[search0]), macros=macros)
        mop = jm.MasterOfPuppets(cfg)
        out = []
        for ret, search, oa in combos:
            mop.match_config.return_mode = getattr(gd.MatchingReturnMode, RETURN[ret])
            mop.match_config.matching_mode = getattr(gd.MatchingSearchMode, SEARCH[search])
            mop.match_config.return_only_address = oa
            v = mop.perform_matching()
            out.append(list(v) if isinstance(v, list) else v)
        return ("ok", out)
    except BaseException as exc:  # noqa: BLE001
        if isinstance(exc, (KeyboardInterrupt, SystemExit, MemoryError)):
            raise
        return ("exc", type(exc).__name__, str(exc)[:300])


def match_sequence(rule_path: str, inputs: List[str], *, binary=False, ret="list", search="all", only_addr=False, macros=None):
    """ONE MasterOfPuppets object used on several inputs in turn (match_config.input_file is re-pointed between the calls).
    Returns ("ok", [result per input]) or ("exc", ...)."""
    try:
        cfg = gd.MatchConfig(
            pattern_pathstr=rule_path, input_file=inputs[0],
            input_file_type=gd.InputFileType.binary if binary else gd.InputFileType.assembly,
            return_only_address=only_addr, return_mode=getattr(gd.MatchingReturnMode, RETURN[ret]),
            matching_mode=getattr(gd.MatchingSearchMode, SEARCH[search]), macros=macros)
        mop = jm.MasterOfPuppets(cfg)
        out = []
        for inp in inputs:
            mop.match_config.input_file = inp
            v = mop.perform_matching()
            out.append(list(v) if isinstance(v, list) else v)
        return ("ok", out)
    except BaseException as exc:  # noqa: BLE001
        if isinstance(exc, (KeyboardInterrupt, SystemExit, MemoryError)):
            raise
        return ("exc", type(exc).__name__, str(exc)[:300])


def match_config_reused(rule_path: str, input_path: str, *, binary=False, ret="bool", search="first", only_addr=False, macros=None):
    """ONE MatchConfig object handed to two MasterOfPuppets constructions in a row (a caller scanning with a prepared configuration):
    returns ("ok", first result, second result) or ("exc", ...)."""
    try:
        cfg = gd.MatchConfig(
            pattern_pathstr=rule_path, input_file=input_path,
            input_file_type=gd.InputFileType.binary if binary else gd.InputFileType.assembly,
            return_only_address=only_addr, return_mode=getattr(gd.MatchingReturnMode, RETURN[ret]),
            matching_mode=getattr(gd.MatchingSearchMode, SEARCH[search]), macros=macros)
        out = []
        for _ in range(2):
            v = jm.MasterOfPuppets(cfg).perform_matching()
            out.append(list(v) if isinstance(v, list) else v)
        return ("ok", out[0], out[1])
    except BaseException as exc:  # noqa: BLE001
        if isinstance(exc, (KeyboardInterrupt, SystemExit, MemoryError)):
            raise
        return ("exc", type(exc).__name__, str(exc)[:300])


def compile_rule(rule_path: str, macros: Optional[List[str]] = None, full_message=False):
    try:
        return ("ok", y2r.Yaml2Regex(rule_path, macros_from_terminal=macros).produce_regex())
    except BaseException as exc:  # noqa: BLE001
        if isinstance(exc, (KeyboardInterrupt, SystemExit, MemoryError)):
            raise
        return ("exc", type(exc).__name__, str(exc) if full_message else str(exc)[:300])


def build_error(rule_path: str, input_path: str, macros: Optional[List[str]] = None):
    """The error message a caller of MasterOfPuppets(...) sees for a rule that does not compile (full text), or None."""
    try:
        cfg = gd.MatchConfig(pattern_pathstr=rule_path, input_file=input_path, input_file_type=gd.InputFileType.assembly,
                             return_only_address=False, return_mode=gd.MatchingReturnMode.bool, matching_mode=gd.MatchingSearchMode.first_find, macros=macros)
        jm.MasterOfPuppets(cfg)
        return None
    except BaseException as exc:  # noqa: BLE001
        if isinstance(exc, (KeyboardInterrupt, SystemExit, MemoryError)):
            raise
        return type(exc).__name__, str(exc)
