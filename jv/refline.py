"""R-line: an independent reader of `objdump -d -M att` text.

Written from objdump's output format; shares no regular expression with the
repository's parser. Used as the reference for C08/C09/C10/C15/C16 and to
compute the expected instruction list of synthetic listings."""
from __future__ import annotations

import re
from typing import List, Optional, Tuple

HEX = "0123456789abcdef"

PREFIXES = {
    "data16", "data32", "addr16", "addr32", "cs", "ds", "es", "fs", "gs", "ss", "lock",
    "rep", "repe", "repz", "repne", "repnz", "bnd", "notrack", "xacquire", "xrelease",
    "{vex}", "{evex}", "{vex3}", "{disp8}", "{disp32}", "{load}", "{store}", "fwait", "wait",
}


def _is_prefix_token(tok: str) -> bool:
    return tok in PREFIXES or tok.startswith("rex")


def _hexrun(s: str, i: int) -> int:
    j = i
    while j < len(s) and s[j] in HEX:
        j += 1
    return j


class Line:
    __slots__ = ("kind", "addr", "text", "raw", "nbytes")

    def __init__(self, kind, addr=None, text=None, raw="", nbytes=0):
        self.kind = kind      # 'inst' | 'cont' | 'other'
        self.addr = addr
        self.text = text      # instruction text after the second tab (inst only)
        self.raw = raw
        self.nbytes = nbytes


def classify(raw: str) -> Line:
    s = raw.rstrip("\n").rstrip("\r")       # a listing saved with CRLF line endings is the same listing
    i = 0
    while i < len(s) and s[i] == " ":
        i += 1
    j = _hexrun(s, i)
    if j == i or not s.startswith(":\t", j):
        return Line("other", raw=raw)
    addr = s[i:j]
    k = j + 2
    # byte column: one or more "hh" groups separated by single blanks
    n = 0
    while k + 1 < len(s) and s[k] in HEX and s[k + 1] in HEX and (k + 2 == len(s) or s[k + 2] in " \t"):
        n += 1
        k += 2
        if k < len(s) and s[k] == " ":
            k += 1
        else:
            break
    if n == 0:
        return Line("other", raw=raw)
    rest = s[k:]
    stripped = rest.lstrip(" ")
    if stripped == "":
        return Line("cont", addr=addr, raw=raw, nbytes=n)
    if not stripped.startswith("\t"):
        return Line("other", raw=raw)
    text = stripped[1:]
    if text.strip() == "":
        return Line("cont", addr=addr, raw=raw, nbytes=n)
    return Line("inst", addr=addr, text=text, raw=raw, nbytes=n)


class Parsed:
    """Segmentation of an instruction text."""
    __slots__ = ("tokens", "prefixes", "mnemonic", "operand_text", "annotation", "comment", "core_end")

    def __init__(self):
        self.tokens: List[str] = []
        self.prefixes: List[str] = []
        self.mnemonic = ""
        self.operand_text: Optional[str] = None
        self.annotation: Optional[str] = None
        self.comment: Optional[str] = None


def parse_text(text: str) -> Parsed:
    p = Parsed()
    body = text
    h = body.find("#")
    if h >= 0:
        p.comment = body[h:]
        body = body[:h]
    body = body.rstrip()
    # trailing <sym+off> annotation (separated by a blank from the operand token)
    m = re.search(r"\s(<[^>]*>)$", body)
    if m:
        p.annotation = m.group(1)
        body = body[: m.start()].rstrip()
    toks = body.split()
    p.tokens = toks
    i = 0
    while i < len(toks) - 1 and _is_prefix_token(toks[i]):
        i += 1
    # toks[i] is the mnemonic unless every token is a prefix (e.g. a lone "lock")
    p.prefixes = toks[:i]
    p.mnemonic = toks[i] if toks else ""
    rest = toks[i + 1:]
    p.operand_text = rest[0] if rest else None
    return p


def split_operands(optext: str) -> List[str]:
    out, depth, cur = [], 0, []
    for ch in optext:
        if ch == "(":
            depth += 1
        elif ch == ")":
            depth = max(0, depth - 1)
        if ch == "," and depth == 0:
            out.append("".join(cur))
            cur = []
        else:
            cur.append(ch)
    out.append("".join(cur))
    return out


_REG = r"%[a-z][a-z0-9]*"
_NUM = r"-?0x[0-9a-fA-F]+|-?[0-9]+"
RE_IMM = re.compile(rf"^\$({_NUM})$")
RE_REG = re.compile(rf"^({_REG})$")
RE_MEM = re.compile(rf"^({_NUM})?\(({_REG})?(?:,({_REG}),([1248]))?\)$")
RE_ADDR = re.compile(r"^[0-9a-f]+$")
RE_ADDR0X = re.compile(r"^0x[0-9a-fA-F]+$")


def normalize_operand(att: str) -> Optional[str]:
    """Normal form of one AT&T operand per property C09, or None when the
    operand's shape is outside the forms the property lists (unspecified)."""
    m = RE_IMM.match(att)
    if m:
        return m.group(1)
    if RE_REG.match(att):
        return att
    m = RE_MEM.match(att)
    if m:
        k, a, b, c = m.group(1), m.group(2), m.group(3), m.group(4)
        if a is None and b is None:
            return None
        if b is None:
            return f"[{a}+{k}]" if k is not None else f"[{a}]"
        if a is None:
            if k is None:
                return None
            return f"[+{b}*{c}+{k}]"
        return f"[{a}+{b}*{c}+{k}]" if k is not None else f"[{a}+{b}*{c}]"
    if RE_ADDR.match(att):
        return att
    if RE_ADDR0X.match(att):
        return att           # a target / absolute address printed with 0x (objdump -b binary, PE listings): as printed
    return None


RE_MEM2 = re.compile(rf"^({_NUM})?\(({_REG}),({_REG})\)$")        # 16-bit addressing: base and index, no scale


def mem_components(att: str):
    """(k, a, b, c) of an AT&T memory operand in the C06 forms, else None. The two-register form of 16-bit addressing k(a,b) has
    the components k, a, b and NO scale."""
    m = RE_MEM.match(att)
    if not m:
        m2 = RE_MEM2.match(att)
        return (m2.group(1), m2.group(2), m2.group(3), None) if m2 else None
    if m.group(2) is None and m.group(3) is None:
        return None
    return m.group(1), m.group(2), m.group(3), m.group(4)


class RInst:
    __slots__ = ("addr", "parsed", "ops_att", "ops_norm", "lineno", "raw")

    def __init__(self, addr, parsed, lineno, raw):
        self.addr = addr
        self.parsed = parsed
        self.lineno = lineno
        self.raw = raw
        self.ops_att = split_operands(parsed.operand_text) if parsed.operand_text is not None else []
        self.ops_norm = [normalize_operand(o) for o in self.ops_att]

    @property
    def plain(self) -> bool:
        """No prefix tokens, every operand in a specified shape, no branch hint."""
        return (not self.parsed.prefixes and all(o is not None for o in self.ops_norm)
                and "," not in self.parsed.mnemonic and not self.parsed.mnemonic.startswith("("))

    def expected_fields(self):
        return (self.addr, self.parsed.mnemonic, tuple(self.ops_norm) if self.ops_norm else ("",))

    def acceptable_mnemonics(self):
        """Mnemonic spellings a faithful stream may carry for this line: the mnemonic token (the first token that is not a
        prefix; modulo the parentheses of `(bad)` and a `,pt/,pn` hint), alone or together with the prefixes in front of it."""
        acc = set()
        t = self.parsed.mnemonic
        acc.add(t)
        if t.startswith("(") and t.endswith(")"):
            acc.add(t[1:-1])
        if "," in t:
            acc.add(t.split(",")[0])
            acc.add(t.replace(",", "."))
            acc.add(t.replace(",", ""))
        if self.parsed.prefixes:
            for v in list(acc):
                acc.add(" ".join(self.parsed.prefixes + [v]))
                acc.add(" ".join([x for x in self.parsed.prefixes if x != "data16"] + [v]))
        return acc

    def prefix_as_mnemonic(self):
        """Open finding (C08/C09): the reading in which the first prefix token other than `data16` is taken for the mnemonic
        and the token after it for the operand text. Returns (mnemonic, operand fields) of that reading, or None if the line
        has no such prefix in front of its mnemonic."""
        toks = [t for i, t in enumerate(self.parsed.tokens) if not (t == "data16" and i + 1 < len(self.parsed.tokens))]
        if len(toks) >= 2 and _is_prefix_token(toks[0]) and toks[0] != "data16" and toks[0] != self.parsed.mnemonic:
            return toks[0], toks[1]
        return None


def read_listing(text: str) -> Tuple[List[RInst], dict]:
    insts: List[RInst] = []
    stats = {"inst": 0, "cont": 0, "other": 0}
    for n, raw in enumerate(text.split("\n")):
        ln = classify(raw)
        stats[ln.kind] += 1
        if ln.kind == "inst":
            insts.append(RInst(ln.addr, parse_text(ln.text), n, raw))
    return insts, stats
