"""S-rule: rule documents generated from a window of a listing (so positives
are frequent) plus one-step mutations into near misses."""
from __future__ import annotations

import copy
import random
import re
from typing import Any, List, Optional

from .listing import SInst, ALL_MNEMONICS, ALL_REGS, IMMS, REG_FAMILIES, rand_inst_body, rand_operand

META = set("[]+*().$^?{}|\\")
HEXH = re.compile(r"^[0-9a-fA-F]+h$")


def clean(name: str) -> bool:
    return (name != "" and not (set(name) & META) and not (HEXH.match(name) and name.lower() not in ("ah", "bh", "ch", "dh")) and name != "times"
            and not name.startswith(("&", "@", "$")) and "," not in name and " " not in name)


def tokens_of(field: str) -> List[str]:
    return [t for t in re.split(r"[\[\]+*]", field) if clean(t)]


class Feat:
    """Feature weights for the generator."""

    def __init__(self, **kw):
        self.operands = 0.6
        self.times_item = 0.0
        self.groups = 0.0          # $and/$or/$and_any_order at instruction level
        self.ogroups = 0.0         # the same at operand level
        self.nots = 0.0
        self.onots = 0.0
        self.icaps = 0.0
        self.ocaps = 0.0
        self.regfam = 0.0
        self.deref = 0.0
        self.group_times = 0.0
        self.hexh = 0.0            # immediates named in the Intel-style '<hex>h' spelling
        self.zero_min = 0.0        # probability that a times value gets min 0
        self.excess_ops = 0.0      # operand items beyond the instruction's operand count
        self.any = 0.0             # the shipped @any macro as mnemonic / operand / deref value
        self.odd_names = 0.0       # empty operand names, digit-only names with leading zeros
        self.max_depth = 2
        self.max_odepth = 2        # nesting depth of operand-level groups
        self.max_spine = 4
        self.__dict__.update(kw)


class RuleGen:
    def __init__(self, rng: random.Random, insts: List[SInst], feat: Feat):
        self.rng = rng
        self.insts = insts
        self.feat = feat
        self.fields = [si.fields() for si in insts]
        self.icaps: List[tuple] = []   # (name, index of defining instruction)
        self.ocaps: List[tuple] = []   # (name, bound field text)
        self.regcaps: List[tuple] = []   # (base name, family, letter)
        self.ncap = 0
        self.allow_def = True

    # ---------------------------------------------------------------- names
    def mnem_name(self, mnem: str) -> str:
        r = self.rng.random()
        if r < 0.55 or len(mnem) < 2:
            return mnem
        if r < 0.8:
            a = self.rng.randrange(0, len(mnem) - 1)
            b = self.rng.randrange(a + 1, len(mnem) + 1)
            s = mnem[a:b]
            return s if clean(s) else mnem
        return self.perturb(mnem)

    def perturb(self, s: str) -> str:
        r = self.rng.random()
        if self.rng.random() < 0.06:
            # a name keeps the white space of its YAML spelling (a quoted scalar with a blank, a block scalar ending in a newline): "pop " is not "pop"
            return self.rng.choice([s + " ", " " + s, s + "\n", "\t" + s, s + "  "])
        if self.rng.random() < 0.12 and s.lower() != s.upper():
            return s.upper() if self.rng.random() < 0.6 else s.capitalize() if s.capitalize() != s else s.upper()      # names are case-sensitive: MOV is not mov
        if r < 0.4:
            t = s + self.rng.choice("lqwbx01")
        elif r < 0.7 and len(s) > 1:
            t = s[:-1]
        elif len(s) > 1:
            t = s[1:]
        else:
            t = s + "0"
        return t if clean(t) else s

    def op_name(self, field: str) -> Optional[Any]:
        r = self.rng.random()
        if self.feat.hexh and self.rng.random() < self.feat.hexh:
            m = re.search(r"0x([0-9a-f]+)", field)
            if m and m.group(1) not in ("a", "b", "c", "d"):
                return m.group(1) + "h"
        if clean(field) and r < 0.5:
            name = field
        else:
            toks = tokens_of(field)
            if not toks:
                return None
            name = self.rng.choice(toks)
            if r > 0.75 and len(name) > 2:
                a = self.rng.randrange(0, len(name) - 1)
                sub = name[a:self.rng.randrange(a + 1, len(name) + 1)]
                if clean(sub):
                    name = sub
            elif r > 0.65:
                name = self.perturb(name)
        if re.fullmatch(r"[0-9]+", name) and self.rng.random() < self.feat.odd_names * 4:
            return "0" + name         # a quoted digit-only name with a leading zero is a TEXT ("08" is not 8): found only where it occurs
        if re.fullmatch(r"[1-9][0-9]*|0", name) and self.rng.random() < 0.5:
            return int(name)
        if self.rng.random() < self.feat.odd_names:
            return ""                 # the empty name occurs in every operand (and equals only an empty one): a positional placeholder
        return name

    # ---------------------------------------------------------------- operand nodes
    def deref_for(self, field: str):
        from .model import parse_bracket
        comp = parse_bracket(field)
        if comp is None or comp[0] is None:
            return None
        a, b, c, k = comp
        d = {}

        def reg(v):
            return v if self.rng.random() < 0.5 else v.lstrip("%")

        def const(v):
            r = self.rng.random()
            if v.startswith("-"):
                return v if r < 0.7 else "-" + v[3:]
            body = v[2:] if v.startswith("0x") else v
            if r < 0.4:
                return v
            if r < 0.7:
                return body
            return int(body) if re.fullmatch(r"[0-9]+", body) and body != "0" else v
        d["main_reg"] = reg(a)
        capfield = None
        if self.feat.regfam and self.rng.random() < self.feat.regfam:
            # a register-family capture as base or index register (definition or later occurrence)
            capfield = self.rng.choice(["main_reg"] + (["register_multiplier"] if b is not None else []))
            node = self.regfam_node(a if capfield == "main_reg" else b)
            if node is None:
                capfield = None
            elif capfield == "main_reg":
                d["main_reg"] = node
        if k is not None:
            d["constant_offset"] = const(k)
        if b is not None:
            d["register_multiplier"] = node if capfield == "register_multiplier" else reg(b)
            if capfield == "main_reg" and self.rng.random() < 0.5:
                node2 = self.regfam_node(b)          # a second register capture in the same memory operand (base and index)
                if node2 is not None:
                    d["register_multiplier"] = node2
        if c is not None:
            d["constant_multiplier"] = const(c)
        if self.rng.random() < 0.25 and capfield != "main_reg":
            alts = [d["main_reg"], self.rng.choice(["rsp", "%rbp", "rdi", "%r9"])]
            if self.rng.random() < 0.35:
                alts = [{"$or": [alts[0], "%r15"]}, alts[1]]        # an operator nested in the field's operator
            d["main_reg"] = [{"$or": self.shuffled(alts)}]
        for fld in ("constant_offset", "register_multiplier", "constant_multiplier"):
            if fld in d and self.rng.random() < self.feat.any:
                d[fld] = "@any"
        items = list(d.items())
        self.rng.shuffle(items)
        return {"$deref": dict(items)}

    def near_twin(self, node):
        """A copy of a dict-shaped node (item with operands, $deref, group) that differs from it in ONE leaf at least two levels
        down - same name, same direct children names, other content. Returns None if the node has no such leaf."""
        if not isinstance(node, dict):
            return None
        twin = copy.deepcopy(node)
        leaves = [(p, v) for p, v in _walk(twin) if len(p) >= 2 and isinstance(v, str) and clean(v) and p[-1] != "times"
                  and not (isinstance(p[-1], str) and p[-1] in ("min", "max"))]
        if not leaves:
            return None
        p, v = self.rng.choice(leaves)
        fam = next((f for f in REG_FAMILIES if v in f or "%" + v in f), None)
        new = self.perturb(v)
        if fam:
            other = self.rng.choice([r for r in fam if r.lstrip("%") != v.lstrip("%")] or [v])
            new = other if v.startswith("%") else other.lstrip("%")
        if new == v:
            return None
        _set(twin, p, new)
        return twin

    def shuffled(self, xs):
        xs = list(xs)
        self.rng.shuffle(xs)
        return xs

    def new_cap(self, prefix="c") -> str:
        self.ncap += 1
        used = {n for n, _ in self.ocaps} | {n for n, _ in self.icaps}
        if used and self.rng.random() < 0.15:
            twin = self.rng.choice(sorted(used)).swapcase()      # names that differ only in letter case are different names
            if twin not in used and twin.lower() != twin.upper():
                return twin
        return f"&{prefix}{self.ncap}" + self.rng.choice(["", "", "", "X", "-Tmp", ".v2", ".a.b"])

    def operand_node(self, field: str, depth=0):
        f, rng = self.feat, self.rng
        r = rng.random()
        if field.startswith("[") and r < f.deref:
            d = self.deref_for(field)
            if d is not None:
                return d
        if field.startswith("%") and rng.random() < f.regfam:
            rf = self.regfam_node(field)
            if rf is not None:
                return rf
        if r < f.ocaps and field != "":
            same = [n for n, txt in self.ocaps if txt == field]
            if same and rng.random() < 0.7:
                return rng.choice(same)
            if self.allow_def and rng.random() < 0.6:
                n = self.new_cap("o")
                self.ocaps.append((n, field))
                return n
            if self.ocaps and rng.random() < 0.2:
                return rng.choice(self.ocaps)[0]  # near miss: a capture bound to other text
        if depth < f.max_odepth and rng.random() < (f.ogroups if depth == 0 else 0.35):
            kind = rng.choice(["$or", "$or", "$and"])
            saved, self.allow_def = self.allow_def, False
            good = self.operand_node(field, depth + 1)
            self.allow_def = saved
            if good is None:
                return None
            if rng.random() < f.onots:
                good = self.operand_not(field)      # a negation as the child of an operand-level operator
                if kind == "$or":
                    return {"$or": self.shuffled([good, {"$and": [self.decoy_operand()]}])}
            if kind == "$or":
                alts = [good] + [self.decoy_operand() for _ in range(rng.randint(1, 2))]
                if rng.random() < 0.25:
                    alts.append({"$and": [self.decoy_operand()]})
                tw = self.near_twin(good)
                if tw is not None and rng.random() < 0.5:
                    alts.append(tw)
                return {"$or": self.shuffled(alts)}
            return {"$and": [good]}
        if depth < 1 and rng.random() < f.onots:
            return self.operand_not(field)
        return self.op_name(field)

    def operand_not(self, field: str):
        """An operand-level $not for this operand. Argument: a decoy (the $not succeeds) or, sometimes, a name of this very
        operand (it must reject); single literal or a group of literals."""
        rng = self.rng
        own = self.op_name(field) if rng.random() < 0.3 else None
        d = own if own is not None else self.decoy_operand()
        if rng.random() < 0.18:
            own_d = self.deref_for(field) if field.startswith("[") else None
            d = own_d if own_d is not None and rng.random() < 0.6 else {"$deref": {"main_reg": rng.choice(["%rax", "rbp", "%rsi"])}}      # a $deref as the argument
        elif self.ocaps and rng.random() < 0.35:
            d = rng.choice(self.ocaps)[0]          # a capture bound earlier as the argument: rejects exactly the bound text
        elif self.regcaps and rng.random() < 0.25:
            d = rng.choice(self.regcaps)[0] + ".64"
        r2 = rng.random()
        if r2 < 0.35:
            d = {"$or": self.shuffled([d, self.decoy_operand()] + ([self.decoy_operand()] if rng.random() < 0.4 else []))}
        elif r2 < 0.45:
            d = {"$and": [d]}
        elif r2 < 0.57:
            d = {"$not": [d]}
        return {"$not": [d]}

    def regfam_node(self, field: str):
        """A register-family capture for a register operand (definition or later use)."""
        from .model import REG_TABLE
        rng = self.rng
        hit = None
        for fam, letters in REG_TABLE.items():
            for letter, widths in letters.items():
                for w, nm in widths.items():
                    if field == "%" + nm:
                        hit = (fam, letter, w)
        if hit is None:
            return None
        fam, letter, w = hit
        prefix = {"gen": "&genreg", "ind": "&indreg", "stack": "&stackreg", "base": "&basereg"}[fam]

        def suffix(width, may_omit=False):
            r = rng.random()
            if r < 0.25 and may_omit:
                return ""
            sp = {"8h": rng.choice([".8h", ".8H"]), "8l": rng.choice([".8l", ".8L"])}.get(width, "." + width)
            if r < 0.85:
                return sp
            other = rng.choice([x for x in REG_TABLE[fam][letter] if x != width] or [width])   # near miss: other width
            return "." + other
        same = [b for b, f2, l2 in self.regcaps if f2 == fam and l2 == letter]
        if same and rng.random() < 0.75:
            return rng.choice(same) + suffix(w)
        if self.allow_def and rng.random() < 0.7:
            base = prefix + rng.choice(["", "-1", "-2", "_a", "-Acc", "_B", "-Ptr2", ".acc", ".r.1", "-1", "_a", "-16", "-32", "_64", "-8l", "_8H", "16"])
            if any(b == base for b, _, _ in self.regcaps):
                return None
            self.regcaps.append((base, fam, letter))
            return base + suffix(w, may_omit=True)
        others = [b for b, f2, _ in self.regcaps if f2 == fam]
        if others and rng.random() < 0.25:
            return rng.choice(others) + suffix(w)   # near miss: bound to another register
        return None

    def decoy_operand(self):
        rng = self.rng
        o = rand_operand(rng)
        from . import refline
        n = refline.normalize_operand(o) or "%rax"
        return self.op_name(n) or "%zzz"

    def operands_for(self, ops: tuple, allow_groups=True):
        rng, f = self.rng, self.feat
        if ops == ("",):
            if rng.random() < f.excess_ops:
                r4 = rng.random()
                if r4 < 0.3 and self.allow_def:
                    return [self.new_cap("x")]
                return ["@any" if (f.any > 0 and r4 < 0.3 + f.any * 2) else self.decoy_operand()]
            return None
        n = rng.randint(1, len(ops))
        # $and_any_order over two operands
        if allow_groups and len(ops) >= 2 and rng.random() < f.ogroups * 0.5:
            a, b = self.op_name(ops[0]), self.op_name(ops[1])
            if a is not None and b is not None:
                if rng.random() < f.onots:
                    # one child is a negation: it takes the operand the other child leaves
                    if rng.random() < 0.5:
                        a = self.operand_not(ops[0])
                    else:
                        b = self.operand_not(ops[1])
                return [{"$and_any_order": self.shuffled([a, b])}] + (
                    [x for x in [self.op_name(ops[2])] if x is not None] if len(ops) > 2 and rng.random() < 0.5 else [])
        out = []
        k = 0
        while k < n:
            if k + 1 < n and rng.random() < f.ogroups * f.group_times:
                # an operand-level group with times: two consecutive operands, each matching one alternative
                a, b = self.op_name(ops[k]), self.op_name(ops[k + 1])
                if a is not None and b is not None:
                    alts = [a] if a == b else [a, b]
                    out.append({"$or": self.shuffled(alts + [self.decoy_operand()]), "times": rng.choice([2, 2, {"min": 1, "max": 2}, 1, 3])})
                    k += 2
                    continue
            if k + 1 < n and ops[k] == ops[k + 1] and ops[k].startswith("[") and rng.random() < f.deref:
                d = self.deref_for(ops[k])               # the same memory operand twice in a row: a $deref item with times
                if d is not None:
                    d["times"] = rng.choice([2, 2, {"min": 1, "max": 2}, 3])
                    out.append(d)
                    k += 2
                    continue
            node = "@any" if (rng.random() < f.any and ops[k] != "") else self.operand_node(ops[k])
            if node is None:
                break
            out.append(node)
            k += 1
        if len(out) >= 2 and rng.random() < 0.08:
            out = out[rng.randint(1, len(out) - 1):]     # near miss: names that only occur in a LATER operand than written
        if out and len(out) == len(ops) and rng.random() < f.excess_ops:
            for _ in range(rng.randint(1, 2)):
                r4 = rng.random()
                if r4 < f.any * 2:
                    out.append("@any")
                elif r4 < f.any * 2 + 0.3 and self.allow_def:
                    out.append(self.new_cap("x"))          # a capture definition beyond the last operand must not match anything
                elif r4 < f.any * 2 + 0.4:
                    out.append({"$not": [self.decoy_operand()]})
                else:
                    out.append(self.decoy_operand())
        return out or None

    # ---------------------------------------------------------------- instruction nodes
    def item_for(self, idx: int, allow_times=True):
        addr, mnem, ops = self.fields[idx]
        rng, f = self.rng, self.feat
        name = self.mnem_name(mnem)
        timed = allow_times and rng.random() < f.times_item
        if rng.random() < f.any * 0.5:
            # the macro expander only supports "@any" as a plain item or with a times body
            node = "@any"
            if timed:
                node = {"@any": {"times": self.times_value(1)}}
            return node, 1
        saved = self.allow_def
        if timed:
            self.allow_def = False
        operands = self.operands_for(ops) if rng.random() < f.operands else None
        self.allow_def = saved
        if operands is None:
            node: Any = name
        else:
            node = {name: operands}
        if timed:
            node = self.with_times(node, idx)
        return node, 1

    def times_value(self, r_avail: int):
        rng = self.rng
        if rng.random() < self.feat.zero_min:
            return {"min": 0, "max": rng.randint(1, max(1, r_avail) + 1)}
        form = rng.random()
        if form < 0.35:
            return rng.choice([r_avail, r_avail, max(0, r_avail - 1), r_avail + 1, 1, 2])
        lo = rng.randint(0, max(0, r_avail))
        hi = rng.randint(max(lo, 1), max(lo, r_avail) + 1)
        if form < 0.5 and lo == 1:
            return {"max": hi}
        if form < 0.6 and hi == 1 and lo <= 1:
            return {"min": lo}
        return {"min": lo, "max": hi}

    def with_times(self, node, idx):
        # how many consecutive instructions share the mnemonic (a cheap estimate of the run)
        m = self.fields[idx][1]
        run = 1
        while idx + run < len(self.fields) and self.fields[idx + run][1] == m:
            run += 1
        if self.rng.random() < 0.5:
            run = self.block_run(idx, 1)
        t = self.times_value(run)
        if isinstance(t, dict) and len(t) == 2 and self.rng.random() < 0.3:
            t = {"max": t["max"], "min": t["min"]}          # key order is free
        if isinstance(node, (str, int)):
            if self.rng.random() < 0.2:
                return {node: [], "times": t}               # sibling spelling with an empty operand list
            return {node: {"times": t}}
        d = dict(node)
        d["times"] = t
        return d

    def decoy_item(self):
        rng = self.rng
        if rng.random() < 0.5 and self.fields:
            idx = rng.randrange(len(self.fields))
            node, _ = self.item_for(idx, allow_times=False)
            return node
        return rng.choice(ALL_MNEMONICS)

    def node_for(self, idx: int, depth=0):
        """A node that is intended to match starting at instruction idx.
        Returns (node, number of instructions consumed) or None."""
        rng, f = self.rng, self.feat
        left = len(self.fields) - idx
        if left <= 0:
            return None
        r = rng.random()
        if depth == 0:
            self.allow_def = True
        if depth < f.max_depth and r < f.groups + f.nots:
            self.allow_def = False
        if depth < f.max_depth and r < f.groups:
            kind = rng.choice(["$and", "$or", "$and_any_order"])
            if kind == "$or":
                self.allow_def = False
                good = self.node_for(idx, depth + 1)
                if good is None:
                    return None
                alts = [good[0]] + [self.decoy_item() for _ in range(rng.randint(1, 2))]
                tw = self.near_twin(good[0])
                if tw is not None and rng.random() < 0.5:
                    alts.append(tw)           # same shape as the good alternative, different two levels down
                if self.icaps and rng.random() < 0.35:
                    alts.append(rng.choice(self.icaps)[0])      # a later occurrence of an instruction capture as one alternative
                if rng.random() < 0.3 and left >= 2:
                    two = self.seq_for(idx, 2, depth + 1)
                    if two:
                        alts.append({"$and": two[0]})
                node = {"$or": self.shuffled(alts)}
                used = good[1]
            else:
                k = rng.randint(2, min(3 if kind == "$and" else 4, left)) if left >= 2 else 1
                if rng.random() < 0.12:
                    k = 1          # a group around a single element (with or without times) is legal too
                seq = self.seq_for(idx, k, depth + 1)
                if not seq:
                    return None
                children, used = seq
                if kind == "$and_any_order":
                    children = self.shuffled(children)
                node = {kind: children}
            if rng.random() < f.group_times:
                node["times"] = self.times_value(self.block_run(idx, used, any_order=(kind == "$and_any_order")))
            return node, used
        if depth < f.max_depth and r < f.groups + f.nots:
            x = self.decoy_item()
            if rng.random() < 0.25:
                x = self.item_for(idx, allow_times=False)[0]     # the argument matches here: the $not must reject
            elif self.icaps and rng.random() < 0.4:
                x = rng.choice(self.icaps)[0]                     # an instruction capture bound earlier as the argument
            if (f.ocaps or f.icaps) and rng.random() < 0.15:
                # a capture name that lives only inside this $not (first and every other occurrence): it stands for any operand
                # there, twice for two equal operands; captures defined after the $not are unaffected by it
                self._inner_names = getattr(self, "_inner_names", 0) + 1
                nm = f"&inner{self._inner_names}"
                mn = self.fields[idx][1] if rng.random() < 0.6 else rng.choice(ALL_MNEMONICS)
                x = {mn: [nm] if rng.random() < 0.5 else [nm, nm]}
            r3 = rng.random()
            if r3 < 0.3:
                x = {"$and": [x, self.decoy_item()]}
            elif r3 < 0.45:
                x = {"$or": self.shuffled([x, self.decoy_item()])}
            elif r3 < 0.57:
                x = {"$not": [x]}          # a negation of a negation: matches one instruction at which x DOES match
            elif r3 < 0.75:
                # three operator levels plus a repetition: $not: [$or: [x, {$or: [a, b], times: n}]]
                a_, b_ = self.decoy_item(), (self.item_for(idx, allow_times=False)[0] if rng.random() < 0.5 else self.decoy_item())
                x = {"$or": self.shuffled([x, {"$or": self.shuffled([a_, b_]), "times": rng.choice([2, 2, {"min": 0, "max": 1}, {"min": 1, "max": 2}])}])}
            elif r3 < 0.85 and left >= 2:
                two = self.seq_for(idx, 2, f.max_depth)
                if two and two[1] == 2:
                    x = {"$not": [{"$and": two[0]}]}    # not-not of a two-instruction group that matches here: still ONE instruction
            node = {"$not": [x]}
            if rng.random() < f.group_times:
                node["times"] = self.times_value(1)
            return node, 1
        if r < f.groups + f.nots + f.icaps and depth == 0:
            cur = (self.fields[idx][1], self.fields[idx][2])
            same = [n for n, i in self.icaps if (self.fields[i][1], self.fields[i][2]) == cur]
            if same and rng.random() < 0.8:
                return rng.choice(same), 1
            if rng.random() < 0.6:
                n = self.new_cap("i")
                self.icaps.append((n, idx))
                return n, 1
            if self.icaps and rng.random() < 0.3:
                return rng.choice(self.icaps)[0], 1
        node, used = self.item_for(idx, allow_times=(depth == 0 or rng.random() < 0.5))
        return node, used

    def block_run(self, idx: int, used: int, any_order: bool = False) -> int:
        """How many times the block of `used` instructions at idx repeats consecutively
        (as a multiset of instructions when any_order)."""
        if used <= 0:
            return 1
        if any_order:
            body = lambda a: sorted((m, o) for _, m, o in self.fields[a:a + used])  # noqa: E731
        else:
            body = lambda a: [(m, o) for _, m, o in self.fields[a:a + used]]  # noqa: E731
        block = body(idx)
        r = 1
        while idx + (r + 1) * used <= len(self.fields) and body(idx + r * used) == block:
            r += 1
        return r

    def seq_for(self, idx: int, k: int, depth: int):
        out, used = [], 0
        for _ in range(k):
            r = self.node_for(idx + used, depth)
            if r is None:
                break
            out.append(r[0])
            used += r[1]
        return (out, used) if out else None

    def rule(self, start: Optional[int] = None, spine: Optional[int] = None):
        n = len(self.fields)
        spine = spine or self.rng.randint(1, self.feat.max_spine)
        start = self.rng.randrange(0, max(1, n - spine + 1)) if start is None else start
        seq = self.seq_for(start, spine, 0)
        if not seq:
            return None
        return seq[0]


# -------------------------------------------------------------------- mutations

def _walk(node, path=()):
    """Yield (path, value) for every list element / dict value in a pattern."""
    yield path, node
    if isinstance(node, list):
        for i, v in enumerate(node):
            yield from _walk(v, path + (i,))
    elif isinstance(node, dict):
        for k, v in node.items():
            yield from _walk(v, path + (k,))


def _get(root, path):
    for p in path:
        root = root[p]
    return root


def _set(root, path, val):
    for p in path[:-1]:
        root = root[p]
    root[path[-1]] = val


def mutate_rule(rng: random.Random, pattern: list):
    """One-step mutation of a pattern; returns (new pattern, description) or None."""
    pat = copy.deepcopy(pattern)
    nodes = list(_walk(pat))
    rng.shuffle(nodes)
    for path, val in nodes:
        if not path:
            continue
        parent = _get(pat, path[:-1])
        kind = rng.random()
        # a literal name in a list: perturb it
        if isinstance(val, str) and isinstance(parent, list) and clean(val):
            if kind < 0.5:
                t = val + rng.choice("lqx1") if rng.random() < 0.5 or len(val) < 2 else val[:-1]
                if clean(t):
                    _set(pat, path, t)
                    return pat, f"name {val}->{t}"
            elif len(parent) >= 2 and isinstance(path[-1], int):
                j = rng.randrange(len(parent))
                if j != path[-1]:
                    parent[path[-1]], parent[j] = parent[j], parent[path[-1]]
                    return pat, "swap siblings"
        # an item {name: [...]} : rename key
        if isinstance(val, dict) and val and isinstance(parent, list):
            keys = list(val.keys())
            name = keys[0]
            if isinstance(name, str) and clean(name) and kind < 0.3:
                t = name + rng.choice("lqx") if rng.random() < 0.5 or len(name) < 2 else name[:-1]
                if clean(t):
                    new = {t: val[name]}
                    new.update({k: v for k, v in val.items() if k != name})
                    _set(pat, path, new)
                    return pat, f"mnemonic {name}->{t}"
            if name in ("$or",) and isinstance(val[name], list) and len(val[name]) > 1 and kind < 0.6:
                val[name].pop(rng.randrange(len(val[name])))
                return pat, "drop alternative"
            if name in ("$and", "$and_any_order") and isinstance(val[name], list) and kind < 0.6:
                i = rng.randrange(len(val[name]))
                if rng.random() < 0.5 and len(val[name]) > 1:
                    val[name].pop(i)
                    return pat, "drop child"
                val[name].insert(i, copy.deepcopy(val[name][i]))
                return pat, "duplicate child"
            if "times" in val and kind < 0.9:
                t = val["times"]
                if isinstance(t, int):
                    val["times"] = max(0, t + rng.choice([-1, 1]))
                    return pat, "times +-1"
                if isinstance(t, dict):
                    k = rng.choice(list(t.keys()))
                    nv = t[k] + rng.choice([-1, 1])
                    t2 = dict(t)
                    t2[k] = nv
                    if nv >= 0 and t2.get("min", 1) <= t2.get("max", 1):
                        val["times"] = t2
                        return pat, "bound +-1"
        # operand list: move an operand to the other position
        if isinstance(val, list) and len(val) >= 2 and path and isinstance(path[-1], str) and not str(path[-1]).startswith("$") and kind < 0.5:
            i = rng.randrange(len(val) - 1)
            val[i], val[i + 1] = val[i + 1], val[i]
            return pat, "swap operands"
    return None


def mutate_listing(rng: random.Random, insts: List[SInst], lo: int, hi: int):
    """One-step edit of the listing inside [lo, hi]; returns (new list, description)."""
    out = [SInst(s.addr, s.mnem, list(s.ops), s.annotation, s.comment, s.nbytes) for s in insts]
    if not out:
        return out, "none"
    i = rng.randint(max(0, lo), min(len(out) - 1, max(lo, hi)))
    r = rng.random()
    if r < 0.12 and i + 1 < len(out):
        a, b = out[i], out[i + 1]
        (a.mnem, a.ops, a.annotation, a.comment), (b.mnem, b.ops, b.annotation, b.comment) = \
            (b.mnem, b.ops, b.annotation, b.comment), (a.mnem, a.ops, a.annotation, a.comment)
        return out, f"swap instructions #{i},#{i + 1}"
    if r < 0.3:
        m, ops = rand_inst_body(rng)
        if ops == ["@target"]:
            ops = ["401000"]
        out[i].mnem, out[i].ops, out[i].annotation, out[i].comment = m, ops, None, None
        return out, f"replace #{i}"
    if r < 0.45 and len(out) > 1:
        del out[i]
        _readdress(out)
        return out, f"delete #{i}"
    if r < 0.6:
        m, ops = rand_inst_body(rng)
        if ops == ["@target"]:
            ops = ["401000"]
        out.insert(i, SInst(0, m, ops))
        _readdress(out)
        return out, f"insert before #{i}"
    if r < 0.8 and len(out[i].ops) >= 2:
        j = rng.randrange(len(out[i].ops) - 1)
        out[i].ops[j], out[i].ops[j + 1] = out[i].ops[j + 1], out[i].ops[j]
        return out, f"swap operands of #{i}"
    if out[i].ops and not out[i].annotation:
        j = rng.randrange(len(out[i].ops))
        out[i].ops[j] = rand_operand(rng)
        return out, f"new operand {j} of #{i}"
    out[i].mnem = rng.choice(ALL_MNEMONICS)
    return out, f"new mnemonic #{i}"


def _readdress(insts: List[SInst]):
    if not insts:
        return
    a = min(s.addr for s in insts if s.addr) if any(s.addr for s in insts) else 0x1000
    for s in insts:
        s.addr = a
        a += s.nbytes


def backtrack_risk(node) -> int:
    """Product of the widths of all variable repetition ranges (max - min + 1) and of the orderings of any-order groups: a rough
    measure of how many ways the regex engine can split one run of similar instructions (JASM's own 60 s budget is the limit)."""
    import math
    if isinstance(node, list):
        r = 1
        for x in node:
            r *= backtrack_risk(x)
        return r
    if isinstance(node, dict):
        r = 1
        for k, v in node.items():
            if k == "times":
                if isinstance(v, dict):
                    lo, hi = v.get("min", 1), v.get("max", 1)
                    if isinstance(lo, int) and isinstance(hi, int) and hi > lo:
                        r *= hi - lo + 1
            else:
                if k == "$and_any_order" and isinstance(v, list):
                    r *= math.factorial(min(len(v), 6))
                r *= backtrack_risk(v)
        return r
    return 1


def pattern_cost(node) -> int:
    """Rough size of the regex a pattern compiles to (any-order groups expand to k! sequences)."""
    import math
    if isinstance(node, (str, int)) or node is None:
        return 1
    if isinstance(node, list):
        return sum(pattern_cost(x) for x in node)
    if isinstance(node, dict):
        total = 0
        for k, v in node.items():
            if k == "times":
                continue
            c = pattern_cost(v)
            if k == "$and_any_order" and isinstance(v, list):
                c *= math.factorial(min(len(v), 8))
            total += c + 1
        return total
    return 1
