"""Deterministic probe strata shared by several checks (detection must not depend on the seed)."""
from __future__ import annotations

from . import dsl, listing as L


def RG_name(field: str) -> str:
    """A memory operand is named by its base register (a plain substring name), everything else by its whole text."""
    return field[1:field.index("+")] if field.startswith("[") and "+" in field else field.strip("[]")

THREE_OP = [("imul", ["$0x10", "%rbx", "%rcx"]), ("imul", ["$0x8", "%rcx", "%rcx"]), ("shld", ["$0x4", "%rax", "%rdx"]),
            ("shrd", ["%cl", "%rsi", "%rdi"]), ("vaddps", ["%ymm1", "%ymm2", "%ymm3"]), ("vpxor", ["%xmm0", "%xmm0", "%xmm1"]),
            ("pshufd", ["$0x1b", "%xmm2", "%xmm5"]), ("vfmadd231ps", ["(%rax)", "%ymm4", "%ymm6"]), ("imul", ["$0x10", "0x8(%rbp)", "%rax"]),
            ("vinsertf128", ["$0x1", "%xmm3", "%ymm2", "%ymm7"]), ("vblendvps", ["%ymm1", "%ymm2", "%ymm3", "%ymm4"])]


def operand_not_stratum(ctx, d, n):
    """Instructions with three or four operands x an operand-level $not (direct, inside $or / $and_any_order, doubled) followed by
    further operand items: the $not stands for exactly ONE operand, so the item after it is judged against the NEXT operand."""
    rng = ctx.rng
    for _ in range(n):
        insts, addr = [], rng.choice([0x401000, 0x1139, 0xdec0])
        picks = [rng.choice(THREE_OP) for _ in range(rng.randint(3, 8))]
        for m, ops in picks:
            insts.append(L.SInst(addr, m, list(ops), None, None, 4))
            addr += 4
            if rng.random() < 0.3:
                insts.append(L.SInst(addr, "nop", [], None, None, 1))
                addr += 1
        prep = dsl.Prepared(d.ws, insts, rng)
        ctx.ran()
        if not prep.verify(d.ws):
            ctx.inconc("parser disagreement on synthetic listing")
            continue
        d.prep, d.style = prep, "three-operand"
        m, ops = rng.choice(picks)
        names = [RG_name(o) for o in L.SInst(0, m, list(ops)).fields()[2]]       # names as they stand in the stream (no '$')
        p = rng.randrange(len(ops) - 1)                      # the $not stands at operand p; at least one item follows
        form = rng.choice(["direct", "direct", "or", "any", "double", "and"])
        arg = rng.choice(["zzz", names[p], "%r15", names[-1]])
        neg = {"$not": [arg]}
        if form == "double":
            neg = {"$not": [{"$not": [names[p]]}]}
        follow = rng.choice([names[p + 1], names[-1], names[p], "zzz"])
        if form == "or":
            item = {"$or": [neg, {"$and": ["zzz"]}]}
        elif form == "and":
            item = {"$and": [neg]}
        else:
            item = neg
        if form == "any":
            operands = names[:p] + [{"$and_any_order": rng.sample([neg, follow], 2)}]
        else:
            operands = names[:p] + [item, follow]
            if rng.random() < 0.3 and p + 2 < len(names):
                operands.append(names[p + 2])
        d.run_pattern([{m: operands}], "base", True)
        ctx.event("operand_not_probes")


def double_negation_stratum(ctx, d, n):
    """$not: [$not: [G]] with a G that spans two or three instructions: the node still consumes exactly one instruction."""
    rng = ctx.rng
    for _ in range(n):
        a, b, c, e = rng.sample(["push", "call", "ret", "pop", "leave", "nop", "inc", "dec", "cli"], 4)
        seq = [a, b, c, a, b, b, e, a, b, c, c, a, e, b] if rng.random() < 0.5 else [a, b, b, c, a, b, c, e, a, a, b, e]
        insts, addr = [], 0x401000
        for m in seq:
            insts.append(L.SInst(addr, m, [], None, None, 1))
            addr += 1
        prep = dsl.Prepared(d.ws, insts, rng)
        ctx.ran()
        if not prep.verify(d.ws):
            ctx.inconc("parser disagreement on synthetic listing")
            continue
        d.prep, d.style = prep, "double-negation"
        G = rng.choice([[a, b], [a, b, c], [b, c], [a, b, b]])
        g = {rng.choice(["$and", "$and", "$and_any_order"]): G}
        nn = {"$not": [{"$not": [g]}]}
        pattern = rng.choice([[nn, G[1]], [nn, b], [nn, c], [e, nn, b], [nn], [nn, G[1], G[-1]]])
        d.run_pattern(pattern, "base", True)
        ctx.event("double_negation_probes")


def same_stat_probe(ctx, ws, n=4, binary=False):
    """An input file rewritten IN PLACE with other content of the same byte length and with its modification time restored (a
    timestamp-pinned rebuild at another base address): the next operation on that path reports the new content."""
    import os
    from . import real
    rng = ctx.rng
    for it in range(n):
        k = rng.randint(3, 9)
        base_a, base_b = rng.sample([0x401000, 0x501000, 0x601000, 0x701000, 0x40a000], 2)
        if binary and it % 2 == 1:
            # a big object whose two versions differ ONLY far behind its first 64 KiB (a 70000-byte data section comes first, headers and
            # section table are identical): the code is patched in place, one instruction moves
            from . import elf
            blob = bytes(rng.randrange(256) for _ in range(64)) * 1100
            code_a, code_b = bytes([0x90] * k + [0xC3, 0x90]), bytes([0x90] * (k - 1) + [0xC3, 0x90, 0x90])
            A = elf.build([elf.Section(".data", blob, 0x600000, False), elf.Section(".text", code_a, base_a)], 64, None)
            B = elf.build([elf.Section(".data", blob, 0x600000, False), elf.Section(".text", code_b, base_a)], 64, None)
            path = ws.write("same_stat_big.bin", A)
            rule = ws.write("same_stat.yaml", "config:\n  mnemonics-full-match: true\npattern:\n  - nop\n  - ret\n")
            r1 = real.match(rule, path, binary=True, ret="list", search="all", only_addr=True)
            st = os.stat(path)
            with open(path, "wb") as f:
                f.write(B)
            os.utime(path, ns=(st.st_atime_ns, st.st_mtime_ns))
            r2 = real.match(rule, path, binary=True, ret="list", search="all", only_addr=True)
            ctx.ran(2)
            ctx.event("same_stat_rewrites_judged")
            ctx.event("same_stat_rewrites_behind_the_first_64k")
            want1, want2 = [format(base_a + k - 1, "x")], [format(base_a + k - 2, "x")]
            if len(A) != len(B) or r1[0] != "ok" or r2[0] != "ok" or list(r1[1]) != want1 or list(r2[1]) != want2:
                ctx.disagreement({"same_stat": True, "binary": True, "k": k, "bases": [base_a, base_a], "big": True},
                                 f"a {len(A)}-byte object patched in place behind its first 64 KiB (same length, same mtime): first content reports {str(r1[1:2])[:60]} "
                                 f"(expected {want1}), second content reports {str(r2[1:2])[:60]} (expected {want2})")
            continue

        def text(base):
            rows = []
            for j in range(k):
                rows.append(f"  {base + j:x}:\t90                   \tnop")
            rows.append(f"  {base + k:x}:\tc3                   \tret")
            return "\n".join(rows) + "\n"
        if binary:
            from . import elf
            code = bytes([0x90] * k + [0xC3])
            A = elf.build([elf.Section(".text", code, base_a)], 64, None)
            B = elf.build([elf.Section(".text", code, base_b)], 64, None)
        else:
            A, B = text(base_a), text(base_b)
        if len(A) != len(B):
            continue
        path = ws.write("same_stat.bin" if binary else "same_stat.s", A)
        rule = ws.write("same_stat.yaml", "config:\n  mnemonics-full-match: true\npattern:\n  - nop\n  - ret\n")
        r1 = real.match(rule, path, binary=binary, ret="list", search="all", only_addr=True)
        st = os.stat(path)
        with open(path, "wb" if binary else "w") as f:
            f.write(B)
        os.utime(path, ns=(st.st_atime_ns, st.st_mtime_ns))
        r2 = real.match(rule, path, binary=binary, ret="list", search="all", only_addr=True)
        ctx.ran(2)
        ctx.event("same_stat_rewrites_judged")
        want1, want2 = [format(base_a + k - 1, "x")], [format(base_b + k - 1, "x")]
        if r1[0] != "ok" or r2[0] != "ok" or list(r1[1]) != want1 or list(r2[1]) != want2:
            ctx.disagreement({"same_stat": True, "binary": binary, "k": k, "bases": [base_a, base_b]},
                             f"{'object' if binary else 'listing'} rewritten in place (same length, same mtime): first content reports {str(r1[1:2])[:60]} (expected {want1}), "
                             f"second content reports {str(r2[1:2])[:60]} (expected {want2})")


def capture_not_stratum(ctx, d, n=1):
    """A capture bound earlier as the direct argument of $not (operand, register-family and instruction captures): the $not rejects
    exactly the bound text / register. Identical at every seed."""
    rng = ctx.rng
    insts, addr = [], 0x401000
    rows = [("mov", ["%rax", "%rax"]), ("mov", ["%rax", "%rbx"]), ("mov", ["%rcx", "%rcx"]), ("mov", ["%rcx", "%rdx"]),
            ("inc", ["%rsi"]), ("inc", ["%rsi"]), ("ret", []), ("inc", ["%rsi"]), ("inc", ["%rdi"]), ("ret", []),
            ("xor", ["%eax", "%eax"]), ("xor", ["%eax", "%ebx"]), ("add", ["%rax", "%rbx", ]), ("add", ["%rbx", "%rax"]),
            ("lea", ["(%rax)", "%rcx"]), ("lea", ["(%rbx)", "%rcx"]), ("lea", ["0x8(%rbx)", "%rcx"]), ("lea", ["(%rdx,%rax,2)", "%rcx"]),
            ("nop", []), ("push", ["%rbx"]), ("pop", ["%rbx"]), ("nop", []), ("push", ["%rbx"]), ("pop", ["%rcx"]), ("cmp", ["%rax", "%rax"]), ("cmp", ["%rax", "%rdx"]), ("ret", [])]
    for m, ops in rows:
        insts.append(L.SInst(addr, m, list(ops), None, None, 3))
        addr += 3
    prep = dsl.Prepared(d.ws, insts, rng)
    ctx.ran()
    if not prep.verify(d.ws):
        ctx.inconc("parser disagreement on synthetic listing")
        return
    saved = getattr(d, "flags", None)
    d.flags = "none"
    d.prep, d.style = prep, "capture-as-not-argument"
    for pat in ([{"lea": [{"$not": [{"$deref": {"main_reg": "%rax"}}]}, "rcx"]}], [{"lea": [{"$not": [{"$deref": {"main_reg": "rbx", "constant_offset": "0x8"}}]}, "rcx"]}],
                [{"lea": [{"$not": [{"$or": [{"$deref": {"main_reg": "rax"}}, {"$deref": {"main_reg": "rbx"}}]}]}, "rcx"]}],
                [{"mov": ["&src", {"$not": ["&src"]}]}], [{"xor": ["&a", {"$not": ["&a"]}]}], [{"mov": ["&s", "&s"]}, {"mov": ["&s", {"$not": ["&s"]}]}],
                ["&first", {"$not": ["&first"]}, "ret"], ["&i", "&i", "ret"], ["&j", {"$not": ["&j"]}],
                [{"mov": ["&genreg-a.64", {"$not": ["&genreg-a.64"]}]}], [{"xor": ["&genreg_b.32", {"$not": ["&genreg_b.32"]}]}],
                [{"add": ["&x", "&y"]}, {"add": [{"$not": ["&x"]}, {"$not": ["&y"]}]}], [{"add": ["&x", "&y"]}, {"add": ["&y", {"$not": ["&y"]}]}],
                # names that live only inside one $not, with other captures defined and used after it
                [{"$not": [{"mov": ["&src"]}]}, {"push": ["&saved"]}, {"$not": [{"pop": ["&saved"]}]}],
                [{"$not": [{"mov": ["&src"]}]}, {"push": ["&saved"]}, {"pop": ["&saved"]}],
                [{"$not": [{"cmp": ["&a", "&a"]}]}, "ret"], [{"$not": [{"mov": ["&a", "&a"]}]}, {"mov": ["&b", "&b"]}],
                [{"$not": ["&whole"]}, "ret"], [{"$not": [{"$and": ["&one", "&one"]}]}, {"inc": ["&r"]}, {"$not": [{"inc": ["&r"]}]}],
                [{"push": ["&p"]}, {"$not": [{"$and": [{"pop": ["&q"]}, "nop"]}]}, "nop", {"push": ["&p"]}]):
        d.run_pattern(pat, "base", True)
        ctx.event("capture_as_not_argument_probes")
    d.flags = saved


def not_memory_probes(ctx, d):
    """An operand-level $not in front of further operand items, on instructions whose operands are memory references: the $not
    stands for the WHOLE bracketed operand (it cannot end at a `+`, `*` or `]` inside it and leave the rest to the next item).
    Identical at every seed; judged by R-dsl."""
    rng = ctx.rng
    rows = [("lea", ["0x10(%rax,%rbx,8)", "%rcx"]), ("mov", ["-0x8(%rbp)", "%rdx"]), ("lea", ["(%rdx)", "%rbx"]), ("mov", ["%rdx", "0x8(%rsp)"]),
            ("add", ["$0x8", "0x18(%rdi,%rsi,4)"]), ("lea", ["0x10(%rax,%rbx,8)", "%rbx"]), ("cmp", ["(%rcx,%rdx,2)", "%rdx"]), ("ret", [])]
    insts, addr = [], 0x401000
    for m, ops in rows:
        insts.append(L.SInst(addr, m, list(ops), None, None, 4))
        addr += 4
    prep = dsl.Prepared(d.ws, insts, rng)
    ctx.ran()
    if not prep.verify(d.ws):
        ctx.inconc("parser disagreement on synthetic listing")
        return
    saved = getattr(d, "flags", None)
    d.flags = "none"
    d.prep, d.style = prep, "not-before-operands-of-memory-references"
    for pat in ([{"lea": [{"$not": ["rdx"]}, "rbx"]}], [{"mov": [{"$not": ["rax"]}, "0x8"]}], [{"lea": [{"$not": ["rdx"]}, {"$not": ["rcx"]}]}],
                [{"lea": [{"$not": ["rdx"]}, "rcx"]}], [{"mov": [{"$not": ["rax"]}, "rdx"]}], [{"add": [{"$not": ["0x9"]}, "rsi"]}], [{"add": [{"$not": ["0x9"]}, {"$not": ["0x9"]}, "rsi"]}],
                [{"cmp": [{"$not": ["rax"]}, "rdx"]}], [{"cmp": [{"$not": ["rax"]}, "2"]}], [{"lea": [{"$not": ["zzz"]}, {"$not": ["zzz"]}, {"$not": ["zzz"]}]}],
                [{"mov": ["rdx", {"$not": ["rax"]}]}], [{"mov": ["rdx", {"$not": ["rax"]}, "rsp"]}], [{"lea": [{"$not": [{"$deref": {"main_reg": "rdx"}}]}, "rbx"]}]):
        d.run_pattern(pat, "base", True)
        ctx.event("not_before_memory_operand_probes")
    d.flags = saved


WIDE = [("vpermil2ps", ["$0x1", "%xmm3", "%xmm2", "%xmm1", "%xmm0"]), ("vpermil2pd", ["$0x0", "%ymm4", "%ymm3", "%ymm2", "%ymm1"]),
        ("vfmaddps", ["%xmm1", "%xmm2", "%xmm3", "%xmm4"]), ("vaddps", ["%zmm2", "%zmm1", "%zmm0{%k1}{z}"]), ("vaddps", ["{rn-sae}", "%zmm1", "%zmm2", "%zmm3"]),
        ("vmovaps", ["%zmm2", "%zmm1{%k1}"]), ("vcmpps", ["$0x1", "%zmm1", "%zmm2", "%k2{%k3}"]), ("vblendvps", ["%ymm1", "%ymm2", "%ymm3", "%ymm4"]),
        ("mov", ["%rax", "%rbx"]), ("push", ["%rbp"]), ("ret", []), ("nop", [])]


def wide_instruction_stratum(ctx, d, n):
    """Instructions with four and five operands and operands carrying AVX-512 brace decorations, as objdump prints them: an
    instruction-level $not consumes such an instruction like any other, an operand-level $not stands for one such operand."""
    rng = ctx.rng
    for _ in range(n):
        insts, addr = [], 0x401000
        rows = [rng.choice(WIDE) for _ in range(rng.randint(4, 9))]
        for m, ops in rows:
            insts.append(L.SInst(addr, m, list(ops), None, None, 6, verbatim=True))
            addr += 6
        prep = dsl.Prepared(d.ws, insts, rng)
        ctx.ran()
        if not prep.verify(d.ws):
            ctx.inconc("parser disagreement on synthetic listing")
            continue
        d.prep, d.style = prep, "wide-instructions"
        k = rng.randrange(len(rows) - 1)
        m, ops = rows[k]
        nxt = rows[k + 1][0]
        fields = list(prep.expect[k][2])
        # instruction level: a $not that must succeed / must reject at a wide instruction, followed by the next instruction
        d.run_pattern([{"$not": [rng.choice(["push", "zzz", m])]}, nxt], "base", True)
        d.run_pattern([{"$not": [{m: [fields[0]]}]} if fields[0] else {"$not": [m]}, nxt], "base", True)
        # operand level: $not at each operand position of the wide instruction
        if fields and fields[0]:
            p = rng.randrange(len(fields))
            arg = rng.choice(["zzz", fields[p], fields[-1], "%zmm3", "%k1"])
            operands = [RG_name(f) for f in fields[:p]] + [{"$not": [arg]}] + [RG_name(f) for f in fields[p + 1:]]
            d.run_pattern([{m: operands}], "base", True)
            if p + 1 < len(fields):
                d.run_pattern([{m: [RG_name(f) for f in fields[:p]] + [{"$not": ["zzz"]}, RG_name(fields[p + 1])]}], "base", True)
        ctx.event("wide_instruction_probes")


def not_grid_stratum(ctx, ws):
    """Exhaustive grid for instruction-level $not, identical at every seed, with expectations computed by the plain definition on mnemonic
    sequences (no model): pattern shapes [$not X, Y], [Y, $not X], [$not X], [Y, $not X, Z] over a fixed listing; X is a mnemonic, a
    sequence ($and), an alternation ($or), or a negation; `$not X` consumes exactly one instruction at which X does not match."""
    from . import real
    seq = ["a", "b", "c", "a", "a", "b", "c", "c", "b", "a", "c", "a", "b"]
    names = {"a": "push", "b": "pop", "c": "call"}
    insts, addr = [], 0x401000
    for m in seq:
        insts.append(L.SInst(addr, names[m], [], None, None, 1))
        addr += 1
    lp = ws.write("notgrid.s", L.render(insts, ctx.rng, labels=False))
    n = len(seq)
    X = [("m", "a"), ("m", "b"), ("m", "c"), ("and", "ab"), ("and", "bc"), ("and", "abc"), ("and", "cc"), ("or", "ab"), ("or", "bc"), ("not", "a"), ("not", "c"),
         ("and", "aab"), ("or", "ac"), ("orrep", "c|ab|2"), ("orrep", "a|bc|2"), ("orrep", "b|ac|01"), ("orrep", "c|a|3")]

    def x_matches(x, i):
        kind, arg = x
        if kind == "m":
            return i < n and seq[i] == arg
        if kind == "and":
            return i + len(arg) <= n and all(seq[i + k] == ch for k, ch in enumerate(arg))
        if kind == "or":
            return i < n and seq[i] in arg
        if kind == "orrep":
            # $or: [x, {$or: [y...], times: t}]  with t = 2, 3 (exactly) or 01 ({min: 0, max: 1}: may be empty, so X always matches)
            single, group, t = arg.split("|")
            if i < n and seq[i] == single:
                return True
            if t == "01":
                return True
            k = int(t)
            return i + k <= n and all(seq[i + j] in group for j in range(k))
        return i < n and seq[i] != arg          # not

    def x_yaml(x):
        kind, arg = x
        if kind == "m":
            return names[arg]
        if kind == "and":
            return {"$and": [names[ch] for ch in arg]}
        if kind == "or":
            return {"$or": [names[ch] for ch in arg]}
        if kind == "orrep":
            single, group, t = arg.split("|")
            return {"$or": [names[single], {"$or": [names[ch] for ch in group], "times": {"min": 0, "max": 1} if t == "01" else int(t)}]}
        return {"$not": [names[arg]]}

    cells = []
    for x in X:
        cells.append(("N", x, None, None))
        for y in "abc":
            cells.append(("NY", x, y, None))
            cells.append(("YN", x, y, None))
            for z in "ac":
                cells.append(("YNZ", x, y, z))
    for ci, (shape, x, y, z) in enumerate(cells):
        if ci % ctx.nshards != ctx.shard:
            continue
        nx = {"$not": [x_yaml(x)]}
        pat = {"N": [nx], "NY": [nx, names.get(y)], "YN": [names.get(y), nx], "YNZ": [names.get(y), nx, names.get(z)]}[shape]
        starts = []
        for i in range(n):
            if shape == "N":
                ok = not x_matches(x, i)
            elif shape == "NY":
                ok = not x_matches(x, i) and i + 1 < n and seq[i + 1] == y
            elif shape == "YN":
                ok = seq[i] == y and i + 1 < n and not x_matches(x, i + 1)
            else:
                ok = seq[i] == y and i + 1 < n and not x_matches(x, i + 1) and i + 2 < n and seq[i + 2] == z
            if ok:
                starts.append(i)
        width = {"N": 1, "NY": 2, "YN": 2, "YNZ": 3}[shape]
        want, last = [], -1
        for i in starts:                       # leftmost non-overlapping scan
            if i > last:
                want.append(format(0x401000 + i, "x"))
                last = i + width - 1
        rule = real.dump_rule({"config": {"mnemonics-full-match": True}, "pattern": pat})
        r = real.match(ws.write("notgrid.yaml", rule), lp, ret="list", search="all", only_addr=False)
        ctx.ran()
        ctx.event("not_grid_cells")
        ctx.case(("notgrid", shape, x, y, z), True, stratum="not grid", outcome="found" if r[0] == "ok" and r[1] else "exc" if r[0] != "ok" else "not found")
        got = [h.split("::")[0] for h in r[1]] if r[0] == "ok" else None
        widths_ok = r[0] == "ok" and all(h.count("|") == width for h in r[1])
        if got != want or not widths_ok:
            ctx.disagreement({"notgrid": True, "rule": rule, "want": want, "width": width},
                             f"not grid: pattern {pat} on {' '.join(names[m] for m in seq)}: expected hits at {want} of {width} instruction(s) each, got "
                             f"{[(h.split('::')[0], h.count('|')) for h in r[1]] if r[0] == 'ok' else r[1:3]}")


def replay_not_grid(ctx, case):
    import random
    from . import real
    ws = real.Workspace()
    seq = ["a", "b", "c", "a", "a", "b", "c", "c", "b", "a", "c", "a", "b"]
    names = {"a": "push", "b": "pop", "c": "call"}
    insts, addr = [], 0x401000
    for m in seq:
        insts.append(L.SInst(addr, names[m], [], None, None, 1))
        addr += 1
    lp = ws.write("notgrid.s", L.render(insts, random.Random(0), labels=False))
    r = real.match(ws.write("notgrid.yaml", case["rule"]), lp, ret="list", search="all", only_addr=False)
    ctx.ran()
    got = [h.split("::")[0] for h in r[1]] if r[0] == "ok" else None
    if got != case["want"] or not all(h.count("|") == case["width"] for h in r[1]):
        ctx.disagreement(case, f"not grid cell: expected {case['want']}, got {str(r[1:2])[:200]}")
