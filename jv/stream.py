"""R-stream: decoder/encoder of the text JASM hands to the regex engine.

Written from property C10's statement, not from the repository code:
record = address '::' mnemonic ',' operand ',' ... ',' terminated by '|';
an instruction without operands has exactly one empty operand field.
"""
from __future__ import annotations
from typing import List, Tuple

Inst = Tuple[str, str, Tuple[str, ...]]  # (addr, mnemonic, operand fields)


class StreamError(ValueError):
    pass


def decode(stream: str) -> List[Inst]:
    if stream == "":
        return []
    parts = stream.split("|")
    if parts[-1] != "":
        raise StreamError("stream does not end with the record terminator '|'")
    out: List[Inst] = []
    for n, rec in enumerate(parts[:-1]):
        if "::" not in rec:
            raise StreamError(f"record {n} has no '::' separator: {rec!r}")
        addr, rest = rec.split("::", 1)
        if "::" in rest:
            raise StreamError(f"record {n} has a second '::': {rec!r}")
        if addr == "" or any(c in addr for c in ",:"):
            raise StreamError(f"record {n} has a malformed address field: {rec!r}")
        pieces = rest.split(",")
        if len(pieces) < 3 or pieces[-1] != "":
            raise StreamError(f"record {n} does not end with ',' before '|': {rec!r}")
        mnem = pieces[0]
        ops = tuple(pieces[1:-1])
        if mnem == "":
            raise StreamError(f"record {n} has an empty mnemonic: {rec!r}")
        out.append((addr, mnem, ops))
    return out


def encode(insts) -> str:
    out = []
    for addr, mnem, ops in insts:
        ops = list(ops) if ops else [""]
        out.append(f"{addr}::{mnem},{','.join(ops)},|")
    return "".join(out)


def record_spans(stream: str):
    """[(start, end)] of every record (end is one past the '|')."""
    spans = []
    pos = 0
    while pos < len(stream):
        e = stream.find("|", pos)
        if e < 0:
            raise StreamError("unterminated record")
        spans.append((pos, e + 1))
        pos = e + 1
    return spans


def window_of(stream: str, hit_text: str, spans=None, start_hint=None):
    """Locate hit_text as a whole number of consecutive records.
    Returns list of (i, j) candidate windows (record indices) where
    stream[spans[i][0]:spans[j-1][1]] == hit_text."""
    spans = spans if spans is not None else record_spans(stream)
    starts = {s: i for i, (s, _) in enumerate(spans)}
    ends = {e: i + 1 for i, (_, e) in enumerate(spans)}
    res = []
    pos = stream.find(hit_text)
    while pos >= 0 and hit_text:
        if pos in starts and pos + len(hit_text) in ends:
            res.append((starts[pos], ends[pos + len(hit_text)]))
        pos = stream.find(hit_text, pos + 1)
    return res
