"""Change 3 demo: several matchers are prepared first and run afterwards (batch scanning with a rule set).

Each rule carries its own `mnemonics-full-match` / `operands-full-match` setting; the verdict of a rule must
follow its own setting, whatever other rules were loaded in the meantime."""
import os
import shutil
import sys
import tempfile

root = sys.argv[1] if len(sys.argv) > 1 else "."
sys.path.insert(0, os.path.join(root, "src"))

from jasm.global_definitions import InputFileType, MatchConfig, MatchingReturnMode  # noqa: E402
from jasm.match import MasterOfPuppets  # noqa: E402

LISTING = """
f.o:     file format elf64-x86-64


Disassembly of section .text:

0000000000000000 <f>:
   0:\t55                   \tpush   %rbp
   1:\t48 89 e5             \tmov    %rsp,%rbp
   4:\t89 f8                \tmov    %edi,%eax
   6:\t5d                   \tpop    %rbp
   7:\tc3                   \tret
"""

# (name, rule text, expected verdict according to the property)
RULES = [
    ("substring", "pattern:\n  - pus\n  - mov: ['rsp', 'rbp']\n", True),
    ("mnemonics-full", "config:\n  mnemonics-full-match: true\npattern:\n  - pus\n  - mov: ['rsp', 'rbp']\n", False),
    ("operands-full", "config:\n  operands-full-match: true\npattern:\n  - pus\n  - mov: ['rsp', 'rbp']\n", False),
    ("both-full", "config:\n  mnemonics-full-match: true\n  operands-full-match: true\n"
                  "pattern:\n  - push\n  - mov: ['%rsp', '%rbp']\n", True),
    ("substring-2", "pattern:\n  - mo: ['edi']\n  - po\n", True),
]


def main():
    tmp = tempfile.mkdtemp()
    cwd = os.getcwd()
    failures = []
    try:
        os.chdir(tmp)
        with open("listing.s", "w") as fd:
            fd.write(LISTING)
        for name, text, _ in RULES:
            with open(name + ".yaml", "w") as fd:
                fd.write(text)

        def matcher(name):
            return MasterOfPuppets(MatchConfig(
                pattern_pathstr=name + ".yaml", input_file="listing.s",
                input_file_type=InputFileType.assembly, return_mode=MatchingReturnMode.bool,
            ))

        # sanity: one at a time
        for name, _, expected in RULES:
            got = matcher(name).perform_matching()
            if got != expected:
                failures.append(f"one at a time, rule {name}: expected {expected}, got {got}")

        # prepare the whole rule set, then scan
        for order in (RULES, RULES[::-1]):
            matchers = [(name, expected, matcher(name)) for name, _, expected in order]
            for name, expected, m in matchers:
                got = m.perform_matching()
                if got != expected:
                    failures.append(
                        f"rule set {[r[0] for r in order]}, rule {name}: expected {expected}, got {got}"
                    )
    finally:
        os.chdir(cwd)
        shutil.rmtree(tmp, ignore_errors=True)

    if failures:
        print("PROPERTY VIOLATED:")
        for f in failures:
            print("  " + f)
        return 1
    print("ok")
    return 0


if __name__ == "__main__":
    sys.exit(main())
