"""C03 demo: a $or inside a $deref field matches where one of its alternatives matches.

Here the alternatives are negative displacements (locals addressed from the frame pointer), spelled the
way objdump prints them.

Usage: PYTHONPATH=<root>/src /venv/bin/python demo.py <root>
Exit 0 = property holds, exit 1 = violated.
"""
import os
import shutil
import sys
import tempfile

from jasm.global_definitions import InputFileType, MatchConfig, MatchingReturnMode, MatchingSearchMode
from jasm.match import MasterOfPuppets

HEADER = "\nt.o:     file format elf64-x86-64\n\n\nDisassembly of section .text:\n\n0000000000000000 <f>:\n"


def listing(instructions):
    lines = []
    for index, (mnemonic, operands) in enumerate(instructions):
        addr = 0x10 + 4 * index
        text = f"{mnemonic}   {operands}" if operands else mnemonic
        lines.append(f"  {addr:x}:\t48 8b 45 f8          \t{text}")
    return HEADER + "\n".join(lines) + "\n"


def match(workdir, rule, instructions):
    rule_path = os.path.join(workdir, "rule.yaml")
    listing_path = os.path.join(workdir, "listing.s")
    with open(rule_path, "w", encoding="utf-8") as handle:
        handle.write(rule)
    with open(listing_path, "w", encoding="utf-8") as handle:
        handle.write(listing(instructions))
    config = MatchConfig(
        pattern_pathstr=rule_path,
        input_file=listing_path,
        input_file_type=InputFileType.assembly,
        return_mode=MatchingReturnMode.matched_addrs_list,
        matching_mode=MatchingSearchMode.all_finds,
        return_only_address=True,
    )
    return MasterOfPuppets(config).perform_matching()


# The single alternatives, for reference: they behave the same before and after
RULE_SINGLE = """
pattern:
  - mov:
      - $deref:
          main_reg: rbp
          constant_offset: "-0x8"
      - rax
"""

RULE_OR = """
pattern:
  - mov:
      - $deref:
          main_reg: rbp
          constant_offset:
            - $or:
                - "-0x8"
                - "-0x10"
      - rax
"""

# a negative and a positive alternative, with alternatives for the base register as well
RULE_OR_MIXED = """
pattern:
  - push
  - lea:
      - $deref:
          main_reg:
            - $or:
                - rbp
                - rsp
          constant_offset:
            - $or:
                - "0x20"
                - "-0x20"
      - rdi
  - call
"""

LISTING_MOV = [
    ("mov", "-0x8(%rbp),%rax"),     # 10
    ("mov", "-0x10(%rbp),%rax"),    # 14
    ("mov", "-0x18(%rbp),%rax"),    # 18
    ("mov", "0x8(%rbp),%rax"),      # 1c
    ("mov", "0x10(%rbp),%rax"),     # 20
    ("mov", "-0x8(%rbx),%rax"),     # 24
]

LISTING_LEA = [
    ("push", "%rbx"),               # 10
    ("lea", "-0x20(%rbp),%rdi"),    # 14
    ("call", "401000"),             # 18
    ("push", "%rbx"),               # 1c
    ("lea", "0x20(%rsp),%rdi"),     # 20
    ("call", "401000"),             # 24
    ("push", "%rbx"),               # 28
    ("lea", "-0x28(%rbp),%rdi"),    # 2c
    ("call", "401000"),             # 30
]

CASES = [
    # (title, rule, instructions, expected addresses)
    ("single negative displacement", RULE_SINGLE, LISTING_MOV, ["10"]),
    ("$or of two negative displacements", RULE_OR, LISTING_MOV, ["10", "14"]),
    ("$or of a positive and a negative displacement, $or of base registers", RULE_OR_MIXED, LISTING_LEA, ["10", "1c"]),
]


def main():
    workdir = tempfile.mkdtemp(prefix="c03_demo_")
    failures = 0
    try:
        for title, rule, instructions, expected in CASES:
            got = match(workdir, rule, instructions)
            ok = got == expected
            print(f"[{'ok' if ok else 'VIOLATION'}] {title}: expected {expected}, got {got}")
            if not ok:
                failures += 1
    finally:
        shutil.rmtree(workdir, ignore_errors=True)
    if failures:
        print("C03 violated: a $or inside a $deref field did not match where one of its alternatives matches")
        return 1
    print("C03 holds on these cases")
    return 0


if __name__ == "__main__":
    sys.exit(main())
