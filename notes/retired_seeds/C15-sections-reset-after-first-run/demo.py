"""C15 demo 2: one matcher (rule with `sections`) asked twice for its result on a binary.

usage: PYTHONPATH=<root>/src python demo.py <root>
exit 0: every call of the binary route == `objdump -d -M att -j <sections>` text route; exit 1: they differ.
"""
import os
import shutil
import subprocess
import sys
import tempfile

if len(sys.argv) > 1:
    sys.path.insert(0, os.path.join(sys.argv[1], "src"))

from jasm.global_definitions import InputFileType, MatchConfig, MatchingReturnMode, MatchingSearchMode
from jasm.match import MasterOfPuppets

SOURCE = """
	.text
	.globl _start
_start:
	push %rbp
	mov %rsp,%rbp
	call stub
	pop %rbp
	ret

	.section .stubs,"ax",@progbits
stub:
	xor %eax,%eax
	ret
"""

RULE = """
config:
  style: att
  sections:
    - ".stubs"
pattern:
  - pop:
      - "%rbp"
  - ret
"""


def matcher(path, file_type, return_mode):
    return MasterOfPuppets(
        MatchConfig(
            pattern_pathstr="rule.yaml",
            input_file=path,
            input_file_type=file_type,
            return_mode=return_mode,
            matching_mode=MatchingSearchMode.all_finds,
            return_only_address=True,
        )
    )


def main() -> int:
    tmp = tempfile.mkdtemp()
    cwd = os.getcwd()
    try:
        os.chdir(tmp)
        with open("unit.s", "w", encoding="utf-8") as f:
            f.write(SOURCE)
        subprocess.run(["as", "unit.s", "-o", "unit.o"], check=True)
        with open("rule.yaml", "w", encoding="utf-8") as f:
            f.write(RULE)
        text = subprocess.run(
            ["objdump", "-d", "-M", "att", "-j", ".stubs", "unit.o"], capture_output=True, text=True, check=True
        ).stdout
        with open("unit_stubs.s", "w", encoding="utf-8") as f:
            f.write(text)

        failures = []
        for mode in (
            MatchingReturnMode.all_instructions_string,
            MatchingReturnMode.matched_addrs_list,
            MatchingReturnMode.bool,
        ):
            from_text = matcher("unit_stubs.s", InputFileType.assembly, mode).perform_matching()
            binary_matcher = matcher("unit.o", InputFileType.binary, mode)
            for call in (1, 2, 3):
                from_binary = binary_matcher.perform_matching()
                if from_binary != from_text:
                    failures.append(
                        f"{mode.name}, perform_matching() call #{call}: "
                        f"binary route {from_binary!r} != text route {from_text!r}"
                    )

        if failures:
            print("C15 violated: sections=['.stubs'], but the binary route is not `objdump -d -M att -j .stubs`:")
            for failure in failures:
                print("  " + failure)
            return 1
        print("ok: every call of the binary route equals the objdump text restricted to .stubs")
        return 0
    finally:
        os.chdir(cwd)
        shutil.rmtree(tmp, ignore_errors=True)


if __name__ == "__main__":
    sys.exit(main())
