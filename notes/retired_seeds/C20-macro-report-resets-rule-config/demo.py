"""C20 demo 1: `--macros` together with a rule `config:` block (valid_addr_range / sections).

The jasm command must give the same verdict and the same matched addresses as the library API.
usage: PYTHONPATH=<root>/src python demo.py <root>
"""
import os
import re
import shutil
import subprocess
import sys
import tempfile

ROOT = os.path.abspath(sys.argv[1] if len(sys.argv) > 1 else ".")
sys.path.insert(0, os.path.join(ROOT, "src"))

from jasm.global_definitions import InputFileType, MatchConfig, MatchingReturnMode, MatchingSearchMode  # noqa: E402
from jasm.match import MasterOfPuppets  # noqa: E402

LISTING = """
demo.bin:     file format elf64-x86-64


Disassembly of section .text:

0000000000401000 <start>:
  401000:\tc3                   \tret
  401001:\tcc                   \tint3
  401002:\te8 f9 0f 00 00       \tcall   0x402000
  401007:\t48 89 74 24 10       \tmov    %rsi,0x10(%rsp)
  40100c:\t57                   \tpush   %rdi
  40100d:\t48 83 ec 20          \tsub    $0x20,%rsp
  401011:\tc3                   \tret
  401012:\te8 e9 ef 0f 00       \tcall   0x500000
  401017:\t48 83 ec 28          \tsub    $0x28,%rsp
  40101b:\tc3                   \tret
"""

# a call into the image (valid_addr_range) followed, a few instructions later, by a stack reservation
RULE = """
config:
  valid_addr_range:
    min: "0x400000"
    max: "0x4fffff"

pattern:
  - call:
      - valid_addr
  - $not:
      - ret
    times:
      min: 0
      max: 4
  - sub:
      - "@anything"
      - "%rsp"
"""

MACROS = """
macros:
  - name: "@anything"
    pattern: "[^, ]{1,100}"
"""


def run_cli(workdir, pattern, input_flag, input_file, all_matches, only_addr, macros):
    cmd = [sys.executable, "-m", "jasm.main", "-p", pattern, input_flag, input_file]
    if all_matches:
        cmd.append("--all-matches")
    if only_addr:
        cmd.append("--return_only_address")
    if macros:
        cmd += ["--macros"] + macros
    env = dict(os.environ, PYTHONPATH=os.path.join(ROOT, "src"))
    proc = subprocess.run(cmd, cwd=workdir, env=env, capture_output=True, text=True, check=False)
    addrs = re.findall(r" - INFO - Matched address: (.*)", proc.stderr)
    if "RESULT: Pattern found" in proc.stderr:
        verdict = True
    elif "RESULT: Pattern not found" in proc.stderr:
        verdict = False
    else:
        verdict = None
    return proc.returncode, verdict, addrs


def run_api(pattern, file_type, input_file, all_matches, only_addr, macros):
    mode = MatchingSearchMode.all_finds if all_matches else MatchingSearchMode.first_find
    results = []
    for return_mode in (MatchingReturnMode.bool, MatchingReturnMode.matched_addrs_list):
        results.append(
            MasterOfPuppets(
                MatchConfig(
                    pattern_pathstr=pattern,
                    input_file=input_file,
                    input_file_type=file_type,
                    return_mode=return_mode,
                    matching_mode=mode,
                    return_only_address=only_addr,
                    macros=macros,
                )
            ).perform_matching()
        )
    return results[0], results[1]


def main() -> int:
    tmp = tempfile.mkdtemp(prefix="c20_demo1_")
    problems = []
    try:
        rule, listing, macro_file = (os.path.join(tmp, n) for n in ("rule.yaml", "listing.s", "extra_macros.yaml"))
        for path, text in ((rule, RULE), (listing, LISTING), (macro_file, MACROS)):
            with open(path, "w", encoding="utf-8") as handle:
                handle.write(text)

        cases = [("valid_addr_range rule, -s, --macros", rule, "-s", InputFileType.assembly, listing, [macro_file])]

        # second shape: `sections` rule on a binary (uses the fixtures shipped with the project)
        smc_bin = os.path.join(ROOT, "tests", "binary", "smc.bin")
        smc_rule = os.path.join(ROOT, "tests", "yamls", "smc_sections2.yaml")
        shipped_macros = os.path.join(ROOT, "tests", "macros", "macro_1.yaml")
        if all(os.path.exists(p) for p in (smc_bin, smc_rule, shipped_macros)) and shutil.which("objdump"):
            cases.append(("sections rule, -b, --macros", smc_rule, "-b", InputFileType.binary, smc_bin, [shipped_macros]))

        for title, pattern, flag, file_type, input_file, macros in cases:
            for all_matches in (False, True):
                for only_addr in (False, True):
                    api_verdict, api_addrs = run_api(pattern, file_type, input_file, all_matches, only_addr, macros)
                    code, cli_verdict, cli_addrs = run_cli(tmp, pattern, flag, input_file, all_matches, only_addr, macros)
                    label = f"{title} all_matches={all_matches} return_only_address={only_addr}"
                    if code != 0:
                        problems.append(f"{label}: jasm exited with status {code}")
                    if cli_verdict != api_verdict:
                        problems.append(f"{label}: jasm verdict {cli_verdict} but API verdict {api_verdict}")
                    if cli_addrs != api_addrs:
                        problems.append(
                            f"{label}: jasm logged {len(cli_addrs)} address line(s) {cli_addrs[:3]} "
                            f"but the API returned {len(api_addrs)} {api_addrs[:3]}"
                        )
    finally:
        shutil.rmtree(tmp, ignore_errors=True)

    if problems:
        print("C20 VIOLATED: the jasm command does not report what the library computes")
        for problem in problems:
            print("  -", problem)
        return 1
    print("OK: jasm command and library API agree")
    return 0


if __name__ == "__main__":
    sys.exit(main())
