"""C20 demo: the jasm command must give the same verdict / addresses as the library API.

Combination needed: a rule whose `config` has a `valid_addr_range` (the `valid_addr` operand) AND a
macros file given with --macros.
Usage: PYTHONPATH=<root>/src /venv/bin/python demo.py <root>
"""
import glob
import os
import shutil
import subprocess
import sys
import tempfile

ROOT = os.path.abspath(sys.argv[1]) if len(sys.argv) > 1 else os.getcwd()
sys.path.insert(0, os.path.join(ROOT, "src"))

from jasm.global_definitions import InputFileType, MatchConfig, MatchingReturnMode, MatchingSearchMode  # noqa: E402
from jasm.match import MasterOfPuppets  # noqa: E402

LISTING = """
prog:     file format elf64-x86-64


Disassembly of section .text:

0000000000401000 <f>:
  401000:\t55                   \tpush   %rbp
  401001:\te8 fa 0f 00 00       \tcall   402000 <g>
  401006:\tc3                   \tret
  401007:\te8 f4 0f 00 00       \tcall   402000 <g>
  40100c:\tc3                   \tret
"""

RULE = """
config:
  style: att
  valid_addr_range:
    min: "0x400000"
    max: "0x4fffff"
pattern:
  - call:
      - valid_addr
  - "@leave_function"
"""

MACROS = """
macros:
  - name: "@leave_function"
    pattern: ret
"""


def run_cli(workdir, argv):
    env = dict(os.environ, PYTHONPATH=os.path.join(ROOT, "src"))
    proc = subprocess.run([sys.executable, "-m", "jasm.main"] + argv, cwd=workdir, env=env,
                          capture_output=True, text=True, check=False)
    logged = proc.stderr
    file_text = ""
    for logfile in sorted(glob.glob(os.path.join(workdir, "logs", "INFO", "*.log"))):
        with open(logfile, encoding="utf-8") as handle:
            file_text += handle.read()
        os.remove(logfile)
    stderr_lines = [line for line in logged.splitlines()]
    addrs = [line.split("Matched address: ", 1)[1] for line in stderr_lines if "Matched address: " in line]
    file_addrs = [line.split("Matched address: ", 1)[1] for line in file_text.splitlines() if "Matched address: " in line]
    found = any("RESULT: Pattern found" in line for line in stderr_lines)
    not_found = any("RESULT: Pattern not found" in line for line in stderr_lines)
    return proc.returncode, found, not_found, addrs, file_addrs


def main():
    tmp = tempfile.mkdtemp(prefix="c20_demo_")
    try:
        listing, rule, macros = (os.path.join(tmp, n) for n in ("prog.s", "rule.yaml", "extra_macros.yaml"))
        for path, text in ((listing, LISTING), (rule, RULE), (macros, MACROS)):
            with open(path, "w", encoding="utf-8") as handle:
                handle.write(text)

        problems = []
        for all_matches in (False, True):
            mode = MatchingSearchMode.all_finds if all_matches else MatchingSearchMode.first_find
            common = dict(pattern_pathstr=rule, input_file=listing, input_file_type=InputFileType.assembly,
                          matching_mode=mode, return_only_address=True, macros=[macros])
            api_bool = MasterOfPuppets(MatchConfig(return_mode=MatchingReturnMode.bool, **common)).perform_matching()
            api_list = MasterOfPuppets(
                MatchConfig(return_mode=MatchingReturnMode.matched_addrs_list, **common)).perform_matching()

            argv = ["-p", rule, "-s", listing, "--return_only_address", "--macros", macros]
            if all_matches:
                argv.insert(4, "--all-matches")
            code, found, not_found, addrs, file_addrs = run_cli(tmp, argv)
            print(f"all_matches={all_matches}: API bool={api_bool} list={api_list}; "
                  f"CLI exit={code} found={found} not_found={not_found} addrs={addrs} logfile addrs={file_addrs}")
            if code != 0:
                problems.append(f"CLI exit status {code} although the API succeeded")
            if found != bool(api_bool) or not_found == bool(api_bool):
                problems.append(f"verdict differs: API {api_bool}, CLI found={found} not_found={not_found}")
            if addrs != list(api_list) or file_addrs != list(api_list):
                problems.append(f"addresses differ: API {api_list}, CLI terminal {addrs}, CLI log file {file_addrs}")

        if problems:
            print("PROPERTY VIOLATED:")
            for problem in problems:
                print("  -", problem)
            return 1
        print("ok: CLI and API agree")
        return 0
    finally:
        shutil.rmtree(tmp, ignore_errors=True)


if __name__ == "__main__":
    sys.exit(main())
