"""Catalogue of small hand-written breaking edits (the 'must catch' lists of DESIGN section 4).
Each entry: (id, property, file under src/jasm, old text, new text)."""
GD = "global_definitions.py"
MO = "jasm_regex/tree_generators/pattern_node_implementations/mnemonic_and_operand/mnemonic_and_operand.py"
NB = "jasm_regex/tree_generators/pattern_node_implementations/node_branch_root.py"
TT = "jasm_regex/tree_generators/pattern_node_implementations/time_type_builder.py"
PB = "jasm_regex/tree_generators/pattern_node_builder.py"
CM = "jasm_regex/tree_generators/capture_manager.py"
CI = "jasm_regex/tree_generators/capture_group_index.py"
DC = "jasm_regex/tree_generators/deref_classes.py"
CO = "consumer.py"
PA = "stringify_asm/implementations/gnu_objdump/asm_manual_parser_w_regex.py"
OB = "stringify_asm/implementations/observers.py"
ME = "jasm_regex/macro_expander/macro_expander.py"
YR = "jasm_regex/yaml2regex.py"
GO = "stringify_asm/implementations/gnu_objdump/gnu_objdump_disassembler.py"
SD = "stringify_asm/implementations/shell_disassembler.py"
MA = "match.py"
MN = "main.py"
OBS = "matched_observers.py"

MUTANTS = [
    ("c01-swap-flag-keys", "C01", GD, 'mnemonics = config.get("mnemonics-full-match", False)\n        operands = config.get("operands-full-match", False)',
     'mnemonics = config.get("operands-full-match", False)\n        operands = config.get("mnemonics-full-match", False)'),
    ("c01-operand-flag-ignored", "C01", MO, "name, self.helper.allow_matching_substring(PartialMatchingConfig.OperandsFullMatch)", "name, True"),
    ("c01-skip-dot-star", "C01", GD, 'SKIP_TO_END_OF_PATTERN_NODE: Final = f"[^|]{ASTERISK_WITH_LIMIT}" + INSTRUCTION_SEPARATOR', 'SKIP_TO_END_OF_PATTERN_NODE: Final = ".*" + INSTRUCTION_SEPARATOR'),
    ("c01-suffix-admits-comma", "C01", GD, 'IGNORE_NAME_SUFFIX: Final = f"[^,|]{ASTERISK_WITH_LIMIT},"', 'IGNORE_NAME_SUFFIX: Final = f"[^|]{ASTERISK_WITH_LIMIT},"'),
    ("c02-max-plus-one", "C02", TT, 'return f"{{{times.min_times},{times.max_times}}}"', 'return f"{{{times.min_times},{times.max_times + 1}}}"'),
    ("c02-range-collapses-to-min", "C02", TT, 'return f"{{{times.min_times},{times.max_times}}}"', 'return f"{{{times.min_times}}}"'),
    ("c02-default-min-0", "C02", PB, 'min_time = times.get("min", 1)', 'min_time = times.get("min", 0)'),
    ("c03-only-two-orders", "C03", NB, "return [list(permutation) for permutation in permutations(child_regexes)]", "return [list(child_regexes), list(reversed(child_regexes))]"),
    ("c04-lookahead-positive", "C04", NB, 'return f"(?:(?!{\'\'.join(child_regexes)}){self.skip_regex})"', 'return f"(?:(?={\'\'.join(child_regexes)}){self.skip_regex})"'),
    ("c04-skip-twice", "C04", NB, 'return f"(?:(?!{\'\'.join(child_regexes)}){self.skip_regex})"', 'return f"(?:(?!{\'\'.join(child_regexes)}){self.skip_regex}{self.skip_regex})"'),
    ("c05-index-off-by-one", "C05", CM, "return i + 1", "return max(1, i)"),
    ("c05-index-last", "C05", CM, "            if entry == capture:\n                return i + 1", "            if entry == capture:\n                return len(self._capture_group_references)"),
    ("c05-instruction-backref-unanchored", "C05", CI, 'return rf"{IGNORE_INST_ADDR}\\{self.index},\\|"', 'return rf"{IGNORE_INST_ADDR}\\{self.index}[^|]*\\|"'),
    ("c06-swap-b-c", "C06", DC, r'rf"\[{self.main_reg}\+{self.register_multiplier}\*{self.constant_multiplier}\+{self.constant_offset}\]"', r'rf"\[{self.main_reg}\+{self.constant_multiplier}\*{self.register_multiplier}\+{self.constant_offset}\]"'),
    ("c06-0x-mandatory", "C06", DC, 'OPTIONAL_HEX_CHAR: Final = "(?:0x)?"', 'OPTIONAL_HEX_CHAR: Final = "(?:0x)"'),
    ("c07-addr-split-single-colon", "C07", CO, 'return regex_result.split("::")[0]', 'return regex_result.split(":")[0][:-1] if regex_result.count("::") > 1 else regex_result.split("::")[0]'),
    ("c08-code-needs-two-bytes", "C08", PA, 'INSTRUCTION_CODE = rf"(?:{HEX_NUMBER}{{2}} ?)+"', 'INSTRUCTION_CODE = rf"(?:{HEX_NUMBER}{{2}} ?){{2,}}"'),
    ("c08-empty-filter-inverted", "C08", OB, 'if not inst.mnemonic == "empty":', 'if inst.mnemonic == "empty" or True:'),
    ("c08-bad-dropped", "C08", PA, 'return Instruction(addr=addrs, mnemonic="bad", operands=[])', 'return None'),
    ("c09-dollar-kept", "C09", PA, 'if operand_elem.startswith("$"):\n            return operand_elem[1:]', 'if operand_elem.startswith("$$"):\n            return operand_elem[1:]'),
    ("c09-b-c-swapped-in-normal-form", "C09", PA, 'return f"[{main_reg}+{register_multiplier}*{constant_multiplier}+{constant_offset}]"', 'return f"[{main_reg}+{constant_multiplier}*{register_multiplier}+{constant_offset}]"'),
    ("c10-join-comma-space", "C10", GD, """return f"{self.addr}::{self.mnemonic},{','.join(self.operands)}\"""", """return f"{self.addr}::{self.mnemonic},{', '.join(self.operands)}\""""),
    ("c10-terminator-without-comma", "C10", CO, 'self._all_instructions_list.append(processed_inst.stringify() + ",|")', 'self._all_instructions_list.append(processed_inst.stringify() + ("|" if processed_inst.operands else ",|"))'),
    ("c11-overlapped", "C11", CO, "pattern=self._regex_rule, string=self._all_instructions, timeout=self.timeout_regex\n            )\n\n        except TimeoutError as exc:\n            logger.error(\"Regex timeout\")\n            raise ValueError(\"Regex timeout\") from exc\n\n        if match_iterator:",
     "pattern=self._regex_rule, string=self._all_instructions, timeout=self.timeout_regex, overlapped=True\n            )\n\n        except TimeoutError as exc:\n            logger.error(\"Regex timeout\")\n            raise ValueError(\"Regex timeout\") from exc\n\n        if match_iterator:"),
    ("c12-matched-only-when-full-text", "C12", OBS, "        self.matched = True\n        self.addr_list.append(addr)", "        self.matched = self.matched or '::' in addr or len(self.addr_list) > 0\n        self.addr_list.append(addr)"),
    ("c13-no-deepcopy-of-param-macro", "C13", ME, "macro_copy = copy.deepcopy(macro)", "macro_copy = macro"),
    ("c13-extra-files-appended", "C13", YR, "macros = processed_macros + macros", "macros = macros + processed_macros"),
    ("c14-range-not-reset", "C14", GD, '        else:\n            self._set_info("valid_addr_range", None)', '        else:\n            pass'),
    ("c14-default-flags-class-level", "C14", GO, ['    """Disassemble binaries using objdump from shell"""\n', '        default_flags = ["-d"]\n\n        flags = default_flags'],
     ['    """Disassemble binaries using objdump from shell"""\n\n    DEFAULT_FLAGS = ["-d"]\n', '        flags = GNUObjdumpDisassembler.DEFAULT_FLAGS']),
    ("c15-only-first-section", "C15", GO, "        for section in sections:\n            section_flags.extend", "        for section in sections[:1]:\n            section_flags.extend"),
    ("c15-no-j", "C15", GO, '            section_flags.extend(["-j", section])', '            section_flags.extend([])'),
    ("c16-padding-mandatory", "C16", PA, 'FIRST_PADDING = r"^ *"', 'FIRST_PADDING = r"^ +"'),
    ("c16-comment-leaks", "C16", PA, 'OPERANDS = r"([^# ]+)"', 'OPERANDS = r"([^ ]+)"'),
    ("c17-calledprocess-returns-empty", "C17", SD, "            raise BinaryFileFormatNotSupported(exc.stderr) from exc", '            return ""'),
    ("c17-flag-type-check-removed", "C17", GD, "        if not isinstance(mnemonics, bool) or not isinstance(operands, bool):\n            raise ValueError(\"mnemonics and operands must be booleans\")", "        mnemonics, operands = bool(mnemonics), bool(operands)"),
    ("c18-upper-bound-exclusive", "C18", GD, "return self.min.hex <= addr_hex.hex <= self.max.hex", "return self.min.hex <= addr_hex.hex < self.max.hex"),
    ("c18-star-check-removed", "C18", MA, '            if "*" in inst_addr_jump:\n                return inst', '            if "*" in inst_addr_jump:\n                inst_addr_jump = inst_addr_jump.replace("*", "")\n            try:\n                int(inst_addr_jump, 16)\n            except ValueError:\n                return inst'),
    ("c18-string-compare", "C18", GD, "return self.min.hex <= addr_hex.hex <= self.max.hex", "return format(self.min.hex, 'x') <= format(addr_hex.hex, 'x') <= format(self.max.hex, 'x')"),
    ("c19-name-validation-dropped", "C19", ME, "            if not self.is_macro_name(macro_name):\n                raise ValueError", "            if macro_name is None:\n                raise ValueError"),
    ("c20-all-matches-ignored", "C20", MN, "    if args.all_matches:\n        matching_mode = MatchingSearchMode.all_finds", "    if args.all_matches and args.return_only_address:\n        matching_mode = MatchingSearchMode.all_finds"),
    ("c07-addr-only-uses-last-separator", "C07", CO, 'return regex_result.split("::")[0]', 'return regex_result.rsplit("::", 1)[0].split("|")[-1]'),
    ("c11-first-find-returns-last", "C11", CO, "            match_result = regex.search(\n                pattern=self._regex_rule, string=self._all_instructions, timeout=self.timeout_regex\n            )",
     "            match_result = None\n            for match_result in regex.finditer(\n                pattern=self._regex_rule, string=self._all_instructions, timeout=self.timeout_regex\n            ):\n                pass"),
    ("c20-macros-reversed", "C20", MN, "        macros=args.macros,", "        macros=sorted(args.macros) if args.macros else args.macros,"),
]

MUTANTS += [
    ("c11-stream-truncated", "C11", CO, 'self._all_instructions = "".join(self._all_instructions_list)', 'self._all_instructions = "".join(self._all_instructions_list[:10000])'),
    ("c11-finditer-limited", "C11", CO, "            for match_result in match_iterator:\n                if match_result:", "            for n_hit, match_result in enumerate(match_iterator):\n                if match_result and n_hit < 3:"),
    ("c17-deref-two-values-silent", "C17", "jasm_regex/tree_generators/pattern_node_implementations/deref.py", '                raise ValueError("Children list must contain exactly one element")', '                pass'),
]

MUTANTS += [
    ("c05-times-item-without-operands-capturing", "C05", MO, 'return f"(?:{IGNORE_INST_ADDR}(?:{pattern_node_name}{SKIP_TO_END_OF_PATTERN_NODE})){times_regex}"', 'return f"(?:{IGNORE_INST_ADDR}({pattern_node_name}{SKIP_TO_END_OF_PATTERN_NODE})){times_regex}"'),
    ("c05-or-group-capturing", "C05", NB, 'return f"(?:{self.join_or_instructions(child_regexes)})"', 'return f"({self.join_or_instructions(child_regexes)})"'),
    ("c05-not-group-capturing", "C05", NB, 'return f"(?:(?!{\'\'.join(child_regexes)}){self.skip_regex})"', 'return f"((?!{\'\'.join(child_regexes)}){self.skip_regex})"'),
]

MUTANTS += [
    ("c17-flag-type-error-not-raised", "C17", GD, '            raise ValueError("mnemonics and operands must be booleans")', '            return None'),
    ("c17-sections-type-or-to-and", "C17", GD, "list) or not all(isinstance(section, str) for section in sections):", "list) and not all(isinstance(section, str) for section in sections):"),
    ("c17-main-reg-not-required", "C17", DC, '            raise ValueError("main_reg is required for deref object")', '            return DerefObject(main_reg="", constant_offset=None, register_multiplier=None, constant_multiplier=None)'),
    ("c17-negative-times-ignored", "C17", PB, '                        raise ValueError(f"times must not be negative: {times}")', '                        return TimesType(_min_times=1, _max_times=1)'),
]

MUTANTS += [
    ("c02-deref-times-capturing", "C05", "jasm_regex/tree_generators/pattern_node_implementations/deref.py", 'return f"(?:{deref_regex},){times_regex}"', 'return f"({deref_regex},){times_regex}"'),
    ("c02-deref-times-dropped", "C02", "jasm_regex/tree_generators/pattern_node_implementations/deref.py", 'return f"(?:{deref_regex},){times_regex}"', 'return f"{deref_regex},"'),
]

MUTANTS += [
    ("c05-suffixed-definition-any-width", "C05", "jasm_regex/tree_generators/pattern_node_type_builder/special_register_capture_group_type_builder.py",
     'return self._reference(call.process_register_capture_group_name_genreg(lowered, "([abcd])"), any_width=False)',
     'return self._reference(call.process_register_capture_group_name_genreg(lowered, "([abcd])"), any_width=True)'),
    ("c14-matching-options-not-restored", "C14", MA, "        for key, value in self._matching_options.items():\n            self.global_config._set_info(key, value)\n", ""),
    ("c14-config-not-reloaded-at-produce", "C14", YR, "        self._load_config()\n\n        patterns = self._get_pattern()", "        patterns = self._get_pattern()"),
]
