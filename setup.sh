#!/bin/sh
# Nothing to build: the framework is plain Python run by /venv/bin/python. Verify the tools the checks rely on.
set -e
cd "$(dirname "$0")"
/venv/bin/python -c "import regex, yaml, sys; assert sys.version_info >= (3, 12); print('python', sys.version.split()[0], 'regex', regex.__version__, 'yaml', yaml.__version__)"
command -v objdump >/dev/null && objdump --version | head -1
command -v as >/dev/null && as --version | head -1
mkdir -p evidence replays
echo "setup ok"
