#!/venv/bin/python
"""usage: tools/adopt.py <src dir> <seed id> <property> <caught_by or 'MISSED'> <needs...>
Copies patch.diff, demo.py, notes.md into /verif/seeded/<seed id>/ and writes meta.json."""
import json, os, shutil, sys
src, sid, prop, caught = sys.argv[1:5]
needs = " ".join(sys.argv[5:])
dst = os.path.join("/verif/seeded", sid)
os.makedirs(dst, exist_ok=True)
for f in ("patch.diff", "demo.py", "notes.md"):
    if os.path.exists(os.path.join(src, f)):
        shutil.copy(os.path.join(src, f), os.path.join(dst, f))
meta = {"id": sid, "breaks_property": prop, "origin": "independent sub-agent given only the property text and a scratch worktree",
        "needs_to_manifest": needs,
        "confirmed_by": ["tools/seedeval.sh seeded/%s %s: patch applies to the current /repo, baseline suite still 129 passed / 3 expected failures, "
                         "demo.py exits 0 without and 1 with the change" % (sid, prop)],
        "caught_by": [] if caught == "MISSED" else caught.split(","),
        "checked_with": "tools/seedeval.sh (scratch copy of /repo under /tmp, JASM_REPO pointing at it, quick tier)"}
json.dump(meta, open(os.path.join(dst, "meta.json"), "w"), indent=1)
print("adopted", sid)
