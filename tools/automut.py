#!/venv/bin/python
"""Automatic mutation sweep: small syntactic mutants of /repo/src/jasm that still pass the repository's own tests are
run against the quick checks of the properties anchored in the mutated file. Output: one line per mutant
(killed-by-tests / caught by <checks> / SURVIVED) and a summary. Scratch copies live under /tmp and are removed.

usage: tools/automut.py [--max N] [--files substr,...] [--jobs 3] [--seed 0] > report
"""
import argparse
import concurrent.futures as cf
import os
import random
import re
import shutil
import subprocess
import sys
import tempfile

SRC = "/repo/src/jasm"
FILEMAP = {
    "global_definitions.py": ["C01", "C02", "C04", "C05", "C07", "C10", "C14", "C17", "C18"],
    "mnemonic_and_operand.py": ["C01", "C02", "C05", "C07"],
    "node_branch_root.py": ["C02", "C03", "C04", "C05"],
    "time_type_builder.py": ["C02"],
    "pattern_node_builder.py": ["C02", "C03", "C17"],
    "ast_builder.py": ["C03", "C04", "C05", "C06", "C17"],
    "capture_manager.py": ["C05"], "capture_group_index.py": ["C05"], "capture_group_interface.py": ["C05"],
    "capture_group_builders.py": ["C05"], "special_register_capture_group_type_builder.py": ["C05"],
    "capture_group_instruction.py": ["C05", "C07"], "capture_group_operand.py": ["C05"], "capture_group_register.py": ["C05"],
    "deref_classes.py": ["C06", "C03", "C17"], "deref.py": ["C06", "C03", "C05"],
    "consumer.py": ["C07", "C08", "C10", "C11", "C12", "C17"],
    "matched_observers.py": ["C11", "C12", "C20"],
    "match.py": ["C12", "C14", "C15", "C18", "C08"],
    "asm_manual_parser_w_regex.py": ["C08", "C09", "C10", "C16", "C06"],
    "gnu_objdump_parser_manual.py": ["C08", "C16"], "observers.py": ["C08"],
    "gnu_objdump_disassembler.py": ["C15", "C14"], "shell_disassembler.py": ["C15", "C17"],
    "null_disassembler.py": ["C17", "C16"], "composable_producer.py": ["C15", "C12"],
    "macro_expander.py": ["C13", "C19"], "macro_args_resolver.py": ["C13"], "args_mapping_generator.py": ["C13"],
    "yaml2regex.py": ["C13", "C14", "C17", "C19"],
    "main.py": ["C20"], "parse_arguments.py": ["C20"],
}

OPS = [
    (r"<=", "<"), (r">=", ">"), (r"(?<![<>=!])==(?!=)", "!="), (r"!=", "=="), (r"(?<![<=>])<(?![<=])", "<="),
    (r"\band\b", "or"), (r"\bor\b", "and"), (r"\bTrue\b", "False"), (r"\bFalse\b", "True"),
    (r"\bnot ", ""), (r"\bis None\b", "is not None"), (r"\bis not None\b", "is None"),
    (r"\+ 1\b", "+ 0"), (r"\[0\]", "[-1]"), (r"\[-1\]", "[0]"), (r"\[1:\]", "[0:]"), (r"\[:-1\]", "[:]"), (r"\[1\]", "[0]"),
    (r"\.startswith\(", ".endswith("), (r"\.endswith\(", ".startswith("),
    (r"\bin\b(?! range)", "not in"), (r"\bbreak\b", "continue"),
    # regex fragments / separators inside string literals
    (r"\[\^,\|\]", "[^|]"), (r"\[\^\|\]", "[^,|]"), (r"\[\^\|,\]", "[^|]"), (r"\{0,1000\}", "{0,1}"), (r",\?", ","), (r"%\?", "%"),
    (r"\(\?:0x\)\?", "(?:0x)"), (r"\(\?:", "("), (r"\(\?!", "(?="), (r"\\\|", "[|,]"), (r'"::"', '":"'), (r'",\|"', '"|"'), (r"\\\+", "\\\\*"), (r"\\\*", "\\\\+"),
    (r'"\+"', '"-"'), (r"\.lower\(\)", ""), (r", 16\)", ", 10)"), (r'"-d"', '"-D"'), (r'"att"', '"intel"'), (r'"-j"', '"-s"'),
    (r"check=True", "check=False"), (r"_min_times=(\w+), _max_times=(\w+)", r"_min_times=\2, _max_times=\1"),
    (r'\.get\("min", 1\)', '.get("min", 0)'), (r'\.get\("max", 1\)', '.get("max", 2)'),
    (r"permutations\(child_regexes\)", "permutations(child_regexes, len(child_regexes) - 1 or 1)"),
    (r"copy\.deepcopy\((\w+)\)", r"\1"), (r"\.append\(", ".insert(0, "), (r"\.extend\(", ".append("),
    (r"processed_macros \+ macros", "macros + processed_macros"), (r"\.discard\(", ".add("), (r"\.add\(", ".discard("),
    (r"raise ValueError\(", "return None  # ("), (r"raise exc\b", "return ''"), (r"return inst\b", "return None"), (r"return None\b", "return inst"),
]


FIRST_STRING_OP = next(i for i, (p, _) in enumerate(OPS) if p == r"\[\^,\|\]")
LAST_STRING_OP = next(i for i, (p, _) in enumerate(OPS) if p == r'"-j"')


def string_spans(line):
    spans, i, q = [], 0, None
    start = 0
    while i < len(line):
        c = line[i]
        if q is None and c in "\"'":
            q, start = c, i
        elif q is not None and c == "\\":
            i += 1
        elif q is not None and c == q:
            spans.append((start, i + 1))
            q = None
        elif q is None and c == "#":
            break
        i += 1
    return spans


def candidates(rng, files_filter):
    out = []
    for root, _, files in os.walk(SRC):
        for f in sorted(files):
            if not f.endswith(".py") or f not in FILEMAP:
                continue
            if files_filter and not any(x in f for x in files_filter):
                continue
            p = os.path.join(root, f)
            lines = open(p).read().split("\n")
            in_doc = False
            for n, line in enumerate(lines):
                st = line.strip()
                if st.count('"""') == 1:
                    in_doc = not in_doc
                    continue
                if in_doc or not st or st.startswith(("#", "import ", "from ", '"""', "@", "class ", "def ", "logger.")):
                    continue
                spans = string_spans(line)
                for k, (pat, rep) in enumerate(OPS):
                    for m in re.finditer(pat, line):
                        inside = any(a <= m.start() < b for a, b in spans)
                        if inside != (FIRST_STRING_OP <= k <= LAST_STRING_OP):
                            continue          # code operators only outside string literals, regex-fragment operators only inside
                        if inside and st.startswith(("raise ", "assert ", "logger", "print(")):
                            continue          # message texts
                        new = line[:m.start()] + m.expand(rep) + line[m.end():]
                        if new != line:
                            out.append((os.path.relpath(p, SRC), n, k, line, new))
    rng.shuffle(out)
    return out


def run(mut, idx):
    rel, n, k, old, new = mut
    S = tempfile.mkdtemp(prefix="jauto.", dir="/tmp")
    try:
        subprocess.run(["rsync", "-a", "--exclude", ".git", "--exclude", "__pycache__", "--exclude", "logs", "/repo/", S + "/"], check=True)
        p = os.path.join(S, "src", "jasm", rel)
        lines = open(p).read().split("\n")
        lines[n] = new
        open(p, "w").write("\n".join(lines))
        if subprocess.run(["/venv/bin/python", "-m", "py_compile", p], capture_output=True).returncode != 0:
            return idx, mut, "does-not-compile", []
        env = dict(os.environ, PYTHONPATH=S + "/src", PYTHONDONTWRITEBYTECODE="1")
        t = subprocess.run(["/venv/bin/python", "-m", "pytest", "-q", "-p", "no:cacheprovider", "-x", "--timeout=300",
                            "--deselect", "tests/test_matching.py::test_all_patterns[moonbounce_malware_full_111826_lines_binarly.s]",
                            "--deselect", "tests/test_parsing.py::test_correct_number_of_lines_with_regex[moonbounce_malware_full_111826_lines.s]",
                            "--deselect", "tests/test_parsing.py::test_parsing_number_of_lines[moonbounce_malware_full_111826_lines.s]"],
                           cwd=S, env=env, capture_output=True, text=True)
        if t.returncode != 0:
            return idx, mut, "killed-by-tests", []
        caught, incon = [], []
        for prop in FILEMAP[os.path.basename(rel)]:
            env2 = dict(os.environ, JASM_REPO=S, JV_EVIDENCE_DIR=S + "/.ev", JV_REPLAY_DIR=S + "/.rp")
            c = subprocess.run(["./check", prop, "--tier", "quick"], cwd="/verif", env=env2, capture_output=True, text=True)
            if c.returncode == 1:
                caught.append(prop)
            elif c.returncode != 0:
                incon.append(prop)
        if caught:
            return idx, mut, "caught", caught
        return idx, mut, "SURVIVED" + (f" (inconclusive: {incon})" if incon else ""), []
    finally:
        shutil.rmtree(S, ignore_errors=True)


def main():
    ap = argparse.ArgumentParser()
    ap.add_argument("--max", type=int, default=100)
    ap.add_argument("--files", default="")
    ap.add_argument("--jobs", type=int, default=3)
    ap.add_argument("--seed", type=int, default=0)
    a = ap.parse_args()
    rng = random.Random(a.seed)
    cands = candidates(rng, [x for x in a.files.split(",") if x])
    print(f"# {len(cands)} candidate mutants; running {min(a.max, len(cands))}", flush=True)
    stats = {}
    with cf.ThreadPoolExecutor(a.jobs) as ex:
        futs = [ex.submit(run, m, i) for i, m in enumerate(cands[:a.max])]
        for fu in cf.as_completed(futs):
            idx, (rel, n, k, old, new), verdict, caught = fu.result()
            key = verdict.split(" ")[0]
            stats[key] = stats.get(key, 0) + 1
            print(f"{verdict:16s} {','.join(caught):12s} {rel}:{n + 1}: {old.strip()[:70]}  ->  {new.strip()[:70]}", flush=True)
    print("# summary:", stats)


if __name__ == "__main__":
    main()
