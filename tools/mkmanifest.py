#!/venv/bin/python
"""Regenerate /verif/MANIFEST.json from the table below."""
import json
import os

HERE = os.path.dirname(os.path.dirname(os.path.abspath(__file__)))
NOTE = ("Trusted base: CPython 3.12, the regex and PyYAML wheels in /venv, binutils 2.40 (objdump, as) as ground truth for what objdump "
        "prints, the harness's own ELF writer and reference models (R-dsl, R-line, R-stream). Results hold for the executions produced by "
        "the seeded workloads of the stated sizes only; runtime monitoring says nothing about inputs the workloads never produce.")

T = {
 "C01": ("exploration", "4", "differential runtime monitor: real pipeline vs R-dsl interpreter on generated near-miss workloads, all 4 flag settings",
         "Runs the real compile-and-match pipeline on thousands of generated (rule, listing) pairs and their one-step neighbours under all four full-match flag settings and compares found / leftmost start / hit windows with an interpreter written from the property statement."),
 "C02": ("exploration", "4", "differential monitor vs R-dsl plus model-free metamorphic twin (times: n vs written out n times) executed on the real code",
         "Bounds are probed at the edges of planted runs (r-1, r, r+1) for items and all group kinds in both spellings; two independent oracles judge every execution."),
 "C03": ("exploration", "4", "differential runtime monitor vs R-dsl on nested $or/$and/$and_any_order at instruction, operand and $deref level",
         "Nesting to depth 3 with decoy alternatives, different-length alternatives and shuffled any-order children, compared with the reference interpreter."),
 "C04": ("exploration", "4", "differential runtime monitor vs R-dsl on $not in leading/inner/trailing/repeated/operand position; hit text must decode to a model window",
         "Every hit is decoded into whole records and must be exactly a window the reference interpreter accepts, which catches both wrong verdicts and wrong consumption."),
 "C05": ("exploration", "4", "differential runtime monitor vs R-dsl with capture environments (instruction, operand, register-family) on listings with planted duplicates and near-duplicates",
         "Identity (not prefix) of re-matched text, group numbering with up to 12 names and the README width table are judged on planted duplicate / near-duplicate operands."),
 "C06": ("exploration", "4", "end-to-end monitor on as -> objdump -> JASM executions: $deref verdict vs components of the original objdump operand text",
         "The parser's bracket rewriting and the compiler's bracket regex are checked against each other only through the original AT&T text printed by the real objdump."),
 "C07": ("exploration", "4", "hook/boundary invariants on every hit (record alignment, genuine address, one record per item) plus R-dsl window with @any modelled",
         "Alignment and address genuineness are strict invariants evaluated on every hit of both match modes; the shipped @any macro is part of the workload."),
 "C08": ("exploration", "4", "real objdump on random/biased machine code in harness-built ELF64/ELF32 objects vs R-line (independent reader); crash monitor",
         "Thousands of distinct objdump line shapes per run go through both readers; count, order, address and mnemonic are compared and any parser exception is a violation."),
 "C09": ("exploration", "4", "end-to-end monitor on as -> objdump -> JASM executions vs R-line normal-form table",
         "Operand spellings come from the real assembler/disassembler pair; content, number and order of stream operands are compared with the normal forms listed in the property."),
 "C10": ("exploration", "4", "hook invariant decode(stream) == instructions handed to the consumer, evaluated record by record on the C08 workload",
         "A wrapper installed from the harness observes the Instruction objects; framing and separator hygiene are checked for every record."),
 "C11": ("exploration", "4", "offline trace checker: harness's own leftmost non-overlapping scan with the real compiled rule at every stream position vs the reported list",
         "The reported list must equal an independent scan that tests every character position, which decides completeness, disjointness, order and first-match agreement."),
 "C12": ("exploration", "4", "8-mode consistency relations per case plus observer-state invariant at finalize (hook)",
         "All 2x2x2 ways of asking are executed for every case and the relations of the statement are checked pairwise; the observer's state is checked at the hook."),
 "C13": ("exploration", "4", "metamorphic monitor: randomly factored macro rule vs its by-construction inlined twin (regex text, then behaviour on listings)",
         "Factoring is inverse inlining, so the inlined twin is ground truth without a second expander; text equality is checked first, behaviour on 21 listings otherwise."),
 "C14": ("exploration", "4", "history checker: in-process operation sequences covering every ordered pair vs fresh-process result table",
         "Every operation's result inside a history is compared with the same operation executed first in a fresh interpreter; the pool is built so that each kind of leaked state flips a verdict."),
 "C15": ("exploration", "4", "binary route vs harness-run objdump text route on generated ELF objects and section lists; spawn-event audit hook",
         "Stream, verdict and addresses of the binary route are compared with the text route on the harness's own disassembly restricted to the named sections."),
 "C16": ("exploration", "4", "metamorphic monitor over random presentation edits (labels, annotations, comments, headers, indentation, byte column, continuation lines)",
         "The stream and rule results before and after 1-30 presentation edits must be identical; edits are applied with an independent segmentation of objdump lines."),
 "C17": ("fault_enumeration", "4", "one fault per execution from a fixed fault list x base pairs x API/CLI; scan-before-not-found trace rule via regex hook",
         "Every listed fault is injected alone (files, failpoints on open/subprocess.run, fake objdump, malformed documents); only 'not found' outcomes are violations."),
 "C18": ("exploration", "4", "stream-level tagging invariant with vs without the option on listings with targets at min-1/min/max/max+1",
         "Each instruction of the decoded stream is classified must-tag / may-tag / must-not-tag from the run without the option and compared with the run with it."),
 "C19": ("fault_enumeration", "4", "finite grid (reference position x definedness x order x file x other macros) fully enumerated; randomised bodies per cell",
         "All 288 grid cells are executed in every run; the oracle is expanded / reported / never silently kept."),
 "C20": ("exploration", "4", "CLI process (stderr log lines, exit status) vs API result for the equivalent MatchConfig",
         "The command is run as a process in a scratch directory for generated option combinations and its log lines are compared element by element with the API."),
}

checks = []
for pid in sorted(T):
    cat, ref, tech, text = T[pid]
    checks.append({
        "property_id": pid,
        "quick_cmd": f"./check {pid} --tier quick",
        "thorough_cmd": f"./check {pid} --tier thorough",
        "evidence_file": f"/verif/evidence/{pid}.json",
        "replay_cmd_template": f"./check {pid} --replay {{path}}",
        "engine": "jv",
        "level_claimed": {"category": cat, "text": text + " Verdict: 'held on K executions covering ...', never 'verified'.",
                          "design_ref": f"DESIGN.md section 4 ({pid})"},
        "level_note": NOTE,
        "technique": tech,
    })

manifest = {
    "version": 1,
    "setup_cmd": "./setup.sh",
    "hooks": {
        "guard": "JASM_VERIF",
        "enable": "No hook lives in the repository: checks run /venv/bin/python with PYTHONPATH=/verif:$JASM_REPO/src and JASM_VERIF=1, and the harness wraps the "
                  "real functions (MatchedObserver, CompleteConsumer, regex as seen from jasm.consumer, builtins.open, subprocess.run, audit events) at import time inside the check process only.",
        "baseline_off_cmd": "cd /repo && /venv/bin/python -m pytest -ra -q -p no:cacheprovider --timeout=900 --continue-on-collection-errors",
        "source_commits": [],
        "add_only": True,
    },
    "engines": [{"name": "jv", "path": "/verif/jv", "serves_properties": sorted(T),
                 "kind_free_text": "runtime monitoring: sharded workload drivers, reference models (R-dsl, R-line, R-stream), hooks, trace checkers"}],
    "checks": checks,
    "notes": "Sanitizers / race detectors do not apply (single-threaded pure Python, no native code of its own); see DESIGN.md section 0. "
             "Known findings are listed in known_findings.json; fixes to /repo are separate 'fix:' commits.",
    "not_applicable": [],
}
with open(os.path.join(HERE, "MANIFEST.json"), "w") as f:
    json.dump(manifest, f, indent=1)
print("wrote MANIFEST.json with", len(checks), "checks")
