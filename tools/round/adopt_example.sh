set -e
A() {
  if [ -e /verif/seeded/$2 ]; then echo "ID EXISTS: $2"; exit 1; fi
  /verif/tools/adopt.py "$1" "$2" "$3" "$4" "$6" >/dev/null
  python3 - "$2" "$5" <<'PY'
import json,sys
p='/verif/seeded/%s/meta.json'%sys.argv[1]
m=json.load(open(p)); m['history']=sys.argv[2]; json.dump(m,open(p,'w'),indent=1)
PY
}
F="round 7 (rare-construct seeds written to escape a differential tester); first run"
W=/tmp/w7_
A ${W}C04/seeded/1 C04-not-skip-spelled-out-for-four-operands C04 C04 "round 7; missed at first; caught after the wide-instruction stratum (four- and five-operand instructions, decorated operands)" "an instruction-level \$not at a five-operand instruction (vpermil2ps)"
A ${W}C04/seeded/2 C04-operand-skip-positive-alphabet C04 C04 "round 7; missed at first; caught after the wide-instruction stratum (operands with AVX-512 brace decorations)" "an operand-level \$not over an operand with brace decorations (%zmm0{%k1}{z})"
A ${W}C04/seeded/3 C04-double-negation-eliminated-in-handler C04 C04 "$F" "\$not: [\$not: [X]] with X spanning more than one instruction or operand"
A ${W}C06/seeded/1 C06-empty-component-guard-rejects-zero C06 C06 "$F" "a \$deref constant written as the YAML integer 0"
A ${W}C06/seeded/2 C06-component-whitelist-forgets-times C06 C06 "round 7; missed at first; caught after 16 % of the C06 items carry an explicit times: 1, inside the mapping or beside it" "a times key written inside the \$deref mapping"
A ${W}C06/seeded/3 C06-riz-pseudo-index-folded-away C06 C06 "round 7; caught on the first run because disassembly of random bytes (where objdump prints %riz / %eiz) had just been added to the C06 inputs" "an operand printed with the pseudo index register %riz / %eiz"
A ${W}C08/seeded/1 C08-only-first-data16-stripped C08 C08 "$F" "two or more consecutive data16 prefixes"
A ${W}C08/seeded/2 C08-lone-cr-line-endings-lost C08 C08,C16 "round 7; missed at first; caught after C08 saves some listings with CRLF / bare CR line ends and C16 got CR and mixed line-ending edits" "a listing with bare carriage returns as line ends"
A ${W}C08/seeded/3 C08-decorated-memory-operand-raises C08 C08 "$F" "an AVX-512 memory operand with text after the parenthesis ((%rax){1to8})"
A ${W}C09/seeded/1 C09-operand-tokenizer-ends-at-parenthesis C09 C09 "$F" "a decoration after a memory operand's parenthesis"
A ${W}C09/seeded/2 C09-at-most-one-memory-operand-shortcut C09 C09 "$F" "two memory operands in one instruction (movsb %ds:(%rsi),%es:(%rdi) and synthetic mixes)"
A ${W}C09/seeded/3 C09-bad-normalised-in-dataclass C09 C09 "round 7; seed-dependent at first; caught at every seed after (bad) lines with operands are judged on their operands and appear in the synthetic listings" "a (bad) line that carries an operand"
A ${W}C12/seeded/1 C12-ignorecase-in-first-match-only C12 C12 "round 7; missed at first; caught after the generator writes names in upper case as near misses (names are case-sensitive)" "a rule that spells a name with an upper-case letter"
A ${W}C12/seeded/2 C12-empty-hit-discarded-early C12 C12 "$F" "a rule whose every top-level node is optional"
A ${W}C12/seeded/3 C12-run-memo-key-forgets-address-only-flag C12 C12 "round 7; missed at first; caught after 20 % of the mode sets ask ONE matcher object all eight questions by re-setting the attributes of its match_config" "one matcher object asked twice with only return_only_address flipped"
A ${W}C14/seeded/1 C14-yaml-documents-cached-by-text C14 C14 "$F" "a shared macro library whose arg-less macro calls a macro that differs between two operations"
A ${W}C14/seeded/2 C14-inverted-range-keeps-previous-range C14 C14 "round 7; missed at first; caught after operations with ranges that contain nothing (inverted bounds, a far point) entered the C14 pool" "a rule with an inverted range after a rule with a real range"
A ${W}C14/seeded/3 C14-last-objdump-listing-reused C14 C14,C15 "round 7; caught on the first run because the same-stat probe (round 6) covers binaries" "a different binary of the same size and mtime at the same path"
A ${W}C15/seeded/1 C15-capital-D-with-sections C15 C15 "$F" "sections together with an @object symbol inside the named section"
A ${W}C15/seeded/2 C15-magic-sniffing-rejects-coff-and-thin-archives C15 C15 "round 7; missed at first; caught after thin archives and COFF objects (objcopy -O pe-x86-64) entered the C15 inputs" "a COFF object or a thin archive as binary input"
A ${W}C15/seeded/3 C15-pathlib-drops-dot-slash C15 C15 "round 7; missed at first; caught after 12 % of the C15 inputs get unusual file names (./-stage2.bin, blanks, separators)" "a binary whose name starts with a dash, passed as ./-name"
A ${W}C18/seeded/1 C18-macro-library-config-overrides-rule C18 C18 "round 7; missed at first; caught after 15 % of the C18 runs pass a macro library that is a complete rule file with its own config block" "a rule with valid_addr_range together with a macro file that has a config block"
A ${W}C18/seeded/2 C18-target-zero-treated-as-no-target C18 C18 "$F" "a direct call/jmp to address 0 with 0 in the range"
A ${W}C18/seeded/3 C18-bounds-prevalidated-stricter-than-int C18 C18 "round 7; missed at first; caught after the bound spellings include the 0X prefix" "a bound spelled with an upper-case 0X prefix"
A ${W}C19/seeded/1 C19-undefined-names-only-from-final-scan C19 MISSED "round 7; NOT judged by design: an undefined @name that is the value of an argument the macro body ignores disappears with the call; the current tree reports it only if another macro happens to be listed earlier and drops it silently otherwise. The statement's operational clauses speak of names that are still there after expansion or that survive into the matcher - neither applies - so pinning today's order-dependent behaviour would flag a correct clean-up either way" "an undefined @name passed for an argument the macro body ignores, with another macro listed earlier"
A ${W}C19/seeded/2 C19-macro-files-cached-by-hash C19 C19 "$F" "two compilations in one process with a byte-identical library whose macro references an outside macro"
A ${W}C19/seeded/3 C19-long-compile-errors-shortened C19 C19 "round 7; missed at first; caught after the many-undefined stratum (2-30 undefined names of every length: the error seen through Yaml2Regex and MasterOfPuppets names each)" "many or very long undefined macro names (an error message over 256 characters)"
A ${W}C20/seeded/1 C20-argument-files-prefix-at C20 C20 "round 7; missed at first; caught after the file-name probes (relative paths beginning with '@' or containing blanks)" "a relative path whose first character is '@'"
A ${W}C20/seeded/2 C20-exit-with-exception-errno C20 C20 "$F" "objdump not on PATH in -b mode (an OSError without errno)"
A ${W}C20/seeded/3 C20-blank-match-lines-suppressed C20 C20 "$F" "a rule whose every top-level node is optional (zero-width match)"
