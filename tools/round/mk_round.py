import json, subprocess, sys, os
HEAD = subprocess.check_output(["git", "-C", "/repo", "rev-parse", "HEAD"], text=True).strip()
PLAN = {
 "C01": ("C01", []), "C02": ("C02", []), "C03": ("C03", []), "C05": ("C05", []), "C07": ("C07", []),
 "C10": ("C10", []), "C11": ("C11", []), "C13": ("C13", []), "C16": ("C16", []), "C17": ("C17", []),
}
props = {json.loads(l)["id"]: json.loads(l)["statement"] for l in open("/verif/properties.jsonl")}
T = open("/tmp/r4/TEMPLATE6.md").read()
for tag, (prop, files) in PLAN.items():
    d = f"/tmp/w6_{tag}"
    if not os.path.isdir(d):
        subprocess.run(["git", "-C", "/repo", "worktree", "add", "--detach", d, HEAD], check=True, capture_output=True)
    json.dump({"id": prop, "statement": props[prop]}, open(d + "/PROPERTY.json", "w"), indent=1)
    open(d + "/TASK.md", "w").write(T.replace("@DIR@", d).replace("@FILES@", "\n".join("  - src/jasm/" + f for f in files)))
    print(d, prop)
