#!/venv/bin/python
"""usage: tools/roundeval.py <prefix e.g. /tmp/w3_> <PROP> [extra check ids...]
   or: tools/roundeval.py --dir /tmp/w4_tag <PROP> [extra check ids...]
For every <prefix><PROP>/seeded/N: confirm (demo 0/1, tests) and run the quick check of PROP (and extras); one line each."""
import glob, os, shutil, subprocess, sys, tempfile
prefix, prop = sys.argv[1], sys.argv[2]
extra = sys.argv[3:]
root = f"{prefix}{prop}"
if prefix == "--dir":
    root, prop, extra = sys.argv[2], sys.argv[3], sys.argv[4:]
for d in sorted(glob.glob(f"{root}/seeded/*/")):
    n = os.path.basename(d.rstrip("/"))
    S = tempfile.mkdtemp(prefix="jseed.", dir="/tmp")
    try:
        subprocess.run(["rsync", "-a", "--exclude", ".git", "--exclude", "__pycache__", "--exclude", "logs", "/repo/", S + "/"], check=True)
        env = dict(os.environ, PYTHONPATH=S + "/src", PYTHONDONTWRITEBYTECODE="1")
        d0 = subprocess.run(["/venv/bin/python", d + "demo.py", S], cwd=S, env=env, capture_output=True, text=True).returncode
        if subprocess.run(["git", "apply", "--whitespace=nowarn", d + "patch.diff"], cwd=S, capture_output=True).returncode != 0:
            print(f"{prop}/{n}: PATCH DOES NOT APPLY")
            continue
        t = subprocess.run(["/venv/bin/python", "-m", "pytest", "-q", "-p", "no:cacheprovider"], cwd=S, env=env, capture_output=True, text=True).stdout.strip().split("\n")[-1]
        d1 = subprocess.run(["/venv/bin/python", d + "demo.py", S], cwd=S, env=env, capture_output=True, text=True).returncode
        shutil.rmtree(S + "/logs", ignore_errors=True)
        res = []
        for p in [prop] + extra:
            for seed in ("0", "5"):
                e2 = dict(os.environ, JASM_REPO=S, JV_EVIDENCE_DIR=S + "/.ev", JV_REPLAY_DIR=S + "/.rp", VERIF_SEED=seed)
                c = subprocess.run(["./check", p, "--tier", "quick"], cwd="/verif", env=e2, capture_output=True, text=True)
                why = next((l.strip()[5:150] for l in c.stdout.split("\n") if l.strip().startswith("why:")), "")
                res.append(f"{p}@{seed}:" + {0: "MISSED", 1: "caught", 3: "inconclusive"}.get(c.returncode, f"rc{c.returncode}"))
        ok = d0 == 0 and d1 == 1 and "129 passed" in t and "3 failed" in t
        print(f"{prop}/{n}: confirm={'ok' if ok else f'BAD(d0={d0},d1={d1},{t[-40:]})'}  " + " ".join(res) + (f"  | {why}" if why else ""), flush=True)
    finally:
        shutil.rmtree(S, ignore_errors=True)
