#!/bin/sh
# Run every check once (tier $1, default quick) and print one line per property.
cd "$(dirname "$0")/.."
TIER=${1:-quick}
for i in 01 02 03 04 05 06 07 08 09 10 11 12 13 14 15 16 17 18 19 20; do
  ./check C$i --tier $TIER 2>&1 | grep -E "^(C[0-9]+ |VIOLATION|INCONCLUSIVE)" | head -3
done
