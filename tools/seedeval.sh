#!/bin/sh
# usage: tools/seedeval.sh <dir with patch.diff + demo.py> <PROP> [more PROPs]
# Confirms the seeded change on a scratch copy of the CURRENT /repo: patch applies, baseline tests still 129 passed,
# demo passes without / fails with the change; then runs the named checks against it. Scratch copy is removed.
D=$(readlink -f "$1"); shift
S=$(mktemp -d /tmp/jseed.XXXXXX)
trap 'rm -rf "$S"' EXIT
rsync -a --exclude .git --exclude __pycache__ --exclude logs /repo/ "$S"/
cd "$S"
PYTHONPATH="$S/src" /venv/bin/python "$D/demo.py" "$S" >/dev/null 2>&1; echo "demo on unchanged: exit $? (want 0)"
if ! git apply --whitespace=nowarn "$D/patch.diff"; then echo "PATCH DOES NOT APPLY to current /repo"; exit 2; fi
T=$(PYTHONPATH="$S/src" /venv/bin/python -m pytest -q -p no:cacheprovider 2>&1 | tail -1); echo "tests with change: $T (want 3 failed, 129 passed)"
PYTHONPATH="$S/src" /venv/bin/python "$D/demo.py" "$S" > "$S/.demo.out" 2>&1; echo "demo with change: exit $? (want 1): $(tail -2 "$S/.demo.out" | tr '\n' ' ' | cut -c1-200)"
rm -rf "$S/logs"
cd /verif
for P in "$@"; do
  JV_EVIDENCE_DIR="$S/.evidence" JV_REPLAY_DIR="$S/.replays" JASM_REPO="$S" ./check "$P" --tier "${TIER:-quick}" 2>&1 | grep -E "^(C[0-9]+ |VIOLATION|INCONCLUSIVE|  why)" | cut -c1-330 | head -${LINES_MAX:-3}
done
