#!/venv/bin/python
"""Regression over /verif/seeded: apply every adopted change to a scratch copy of the current /repo and run the quick checks
named in its meta.json `caught_by`; report changes that no longer apply or are no longer caught. Scratch copies are removed."""
import concurrent.futures as cf, glob, json, os, shutil, subprocess, sys, tempfile

only = set(sys.argv[1:])


def one(meta_path):
    d = json.load(open(meta_path))
    sid = d["id"]
    S = tempfile.mkdtemp(prefix="jreg.", dir="/tmp")
    try:
        subprocess.run(["rsync", "-a", "--exclude", ".git", "--exclude", "__pycache__", "--exclude", "logs", "/repo/", S + "/"], check=True)
        p = subprocess.run(["git", "apply", "--whitespace=nowarn", os.path.join(os.path.dirname(meta_path), "patch.diff")], cwd=S, capture_output=True, text=True)
        if p.returncode != 0:
            return sid, "PATCH-DOES-NOT-APPLY", []
        res = []
        seeds = os.environ.get("SEEDS", "0 5 11").split()
        for n, prop in enumerate(d["caught_by"]):
            for seed in (seeds if n == 0 else seeds[:1]):      # the first listed check must catch it at every seed
                env = dict(os.environ, JASM_REPO=S, JV_EVIDENCE_DIR=S + "/.ev", JV_REPLAY_DIR=S + "/.rp", VERIF_SEED=seed)
                c = subprocess.run(["./check", prop, "--tier", "quick"], cwd="/verif", env=env, capture_output=True, text=True)
                res.append((f"{prop}@{seed}", {0: "MISSED", 1: "caught", 3: "inconclusive"}.get(c.returncode, f"rc{c.returncode}")))
        first = [v for p, v in res if p.startswith(d["caught_by"][0] + "@")]
        ok = all(v == "caught" for v in first)
        return sid, "ok" if ok else ("FLAKY" if any(v == "caught" for _, v in res) else "NOT-CAUGHT"), res
    finally:
        shutil.rmtree(S, ignore_errors=True)


metas = sorted(glob.glob("/verif/seeded/*/meta.json"))
metas = [m for m in metas if not only or os.path.basename(os.path.dirname(m)) in only or json.load(open(m))["breaks_property"] in only]
bad = 0
with cf.ThreadPoolExecutor(3) as ex:
    for sid, verdict, res in ex.map(one, metas):
        if verdict != "ok" or any(v != "caught" for _, v in res):
            bad += verdict != "ok"
        print(f"{verdict:22s} {sid:55s} {' '.join(f'{p}:{v}' for p, v in res)}", flush=True)
print(f"# {len(metas)} seeded changes, {bad} not caught / not applicable")
