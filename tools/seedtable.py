#!/venv/bin/python
"""Regenerate the seeded-change table of DESIGN.md section 12 from seeded/*/meta.json."""
import glob, json, os, re
rows = []
for m in sorted(glob.glob("/verif/seeded/*/meta.json")):
    d = json.load(open(m))
    rows.append(f"| `{d['id']}` | {d['breaks_property']} | {d['needs_to_manifest']} | {', '.join(d['caught_by']) or '**missed**'} | {d.get('history', 'first run')} |")
table = ("<!-- seeded-table-begin -->\n| seeded change | breaks | needs, in order to manifest | caught by | note |\n|---|---|---|---|---|\n"
         + "\n".join(rows) + "\n<!-- seeded-table-end -->")
p = "/verif/DESIGN.md"
s = open(p).read()
if "SEEDED_TABLE" in s:
    s = s.replace("SEEDED_TABLE", table)
else:
    s = re.sub(r"<!-- seeded-table-begin -->.*?<!-- seeded-table-end -->", lambda _: table, s, flags=re.S)
open(p, "w").write(s)
print(len(rows), "rows")
