#!/bin/sh
# usage: tools/seedtest.sh <patch.diff> <PROP> [more PROPs...]   (env TIER=quick|thorough)
# Applies the patch to a scratch copy of /repo (outside /repo and /verif), runs the named checks against it, removes the copy.
set -e
PATCH=$(readlink -f "$1"); shift
S=$(mktemp -d /tmp/jseed.XXXXXX)
trap 'rm -rf "$S"' EXIT
rsync -a --exclude .git --exclude __pycache__ --exclude 'logs' /repo/ "$S"/
(cd "$S" && git init -q . >/dev/null 2>&1 && git apply --whitespace=nowarn "$PATCH") || { echo "PATCH DOES NOT APPLY"; exit 2; }
cd /verif
for P in "$@"; do
  JV_EVIDENCE_DIR="$S/.evidence" JV_REPLAY_DIR="${KEEP_REPLAYS:-$S/.replays}" JASM_REPO="$S" ./check "$P" --tier "${TIER:-quick}" 2>&1 | grep -E "^(C[0-9]+ |VIOLATION|INCONCLUSIVE|  why)" | head -${LINES_MAX:-4} || true
done
