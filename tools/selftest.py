#!/venv/bin/python
"""Apply each hand-written mutant of selftest/mutants.py to a scratch copy of /repo (under /tmp), confirm the baseline
suite still has 129 passes, run the property's quick check against the copy and report caught / missed."""
import concurrent.futures as cf, os, shutil, subprocess, sys, tempfile
sys.path.insert(0, "/verif/selftest")
from mutants import MUTANTS

only = set(sys.argv[1:])


def one(m):
    mid, prop, rel, old, new = m
    S = tempfile.mkdtemp(prefix="jself.", dir="/tmp")
    try:
        subprocess.run(["rsync", "-a", "--exclude", ".git", "--exclude", "__pycache__", "--exclude", "logs", "/repo/", S + "/"], check=True)
        p = os.path.join(S, "src", "jasm", rel)
        s = open(p).read()
        olds, news = (old, new) if isinstance(old, list) else ([old], [new])
        for o, n in zip(olds, news):
            if o not in s:
                return mid, prop, "STALE (old text not found)", ""
            s = s.replace(o, n, 1)
        open(p, "w").write(s)
        env = dict(os.environ, PYTHONPATH=S + "/src", PYTHONDONTWRITEBYTECODE="1")
        t = subprocess.run(["/venv/bin/python", "-m", "pytest", "-q", "-p", "no:cacheprovider", "-x", "--deselect",
                            "tests/test_matching.py::test_all_patterns[moonbounce_malware_full_111826_lines_binarly.s]",
                            "--deselect", "tests/test_parsing.py"], cwd=S, env=env, capture_output=True, text=True)
        t2 = subprocess.run(["/venv/bin/python", "-m", "pytest", "-q", "-p", "no:cacheprovider", "tests/test_parsing.py"], cwd=S, env=env, capture_output=True, text=True)
        tests_ok = t.returncode == 0 and "2 failed" in t2.stdout.split("\n")[-2]
        env2 = dict(os.environ, JASM_REPO=S, JV_EVIDENCE_DIR=S + "/.ev", JV_REPLAY_DIR=S + "/.rp")
        c = subprocess.run(["./check", prop, "--tier", "quick"], cwd="/verif", env=env2, capture_output=True, text=True)
        verdict = {0: "MISSED", 1: "caught", 3: "inconclusive"}.get(c.returncode, f"rc{c.returncode}")
        why = next((l.strip()[:160] for l in c.stdout.split("\n") if l.strip().startswith("why:")), "")
        return mid, prop, verdict + ("" if tests_ok else " (also fails the baseline suite)"), why
    finally:
        shutil.rmtree(S, ignore_errors=True)


ms = [m for m in MUTANTS if not only or m[0] in only or m[1] in only]
with cf.ThreadPoolExecutor(3) as ex:
    for mid, prop, verdict, why in ex.map(one, ms):
        print(f"{prop} {mid:42s} {verdict}  {why}", flush=True)
