#!/bin/sh
# usage: sweep.sh out seeds...
out=$1; shift
: > $out
for s in "$@"; do for p in C01 C02 C03 C04 C05 C06 C07 C08 C09 C10 C11 C12 C13 C14 C15 C16 C17 C18 C19 C20; do
VERIF_SEED=$s JV_EVIDENCE_DIR=/tmp/ev_sweep JV_REPLAY_DIR=/tmp/rp_sweep /verif/check $p --tier quick 2>&1 | grep -v "^KNOWN" | tail -1 | cut -c1-250 >> $out; done; done
echo done >> $out
